"""C16 — colour conversions: the structural clauses (packing, channel plumbing,
clamping, saturation). The HSL<->RGB round-trip accuracy is numeric and NOT decided.

Engine A (symbolic channels) decides:
  K1  32-bit packing: to_rgb_u32 = 0x00_RR_GG_BB, to_rgba_u32 = 0xRR_GG_BB_AA,
      to_argb_u32 = 0xAA_RR_GG_BB (byte lists, big-endian; rotate by whole bytes)
  K2  RGB <-> RGBA keep the colour channels in place and set alpha to 0xFF / 1.0,
      resp. drop it; HSLA <-> HSL likewise; the RGBA <-> HSLA pair carries alpha through
  K3  float -> 8-bit: every channel is (clamp(c, 0.0, 1.0) * 255.0) as u8 (saturating cast
      of a clamped value), alpha 0xFF for the 3 -> 4 channel form
  K4  8-bit colour + difference saturates: each channel is
      clamp(i32(channel) + diff, 0, 255) as u8
  K5  accessors r/g/b/a, h/s/l/a read channels 0..3 of their own space
Leaves: HSL round trips (accuracy within 1e-4 / 8/255), in-range results, hue wrap.
"""
from fractions import Fraction

from . import facts, common, absint as A, symalg as S

C = "retrofire_core::math::color::"
COL = C + "Color"


def color(chs):
    return ("adt", COL, "Color", [("array", [S.sym(c) if isinstance(c, str) else c for c in chs]), ("tuple", [])])


def m_be(it, args, callee, depth):
    arr = A.deref_all(it, args[0])
    if isinstance(arr, tuple) and arr[0] == "array":
        return ("bytes", [A.deref_all(it, x) for x in arr[1]])
    raise A.Undecided("from_be_bytes on %r" % (arr,))


def m_rot(right):
    def f(it, args, callee, depth):
        v = A.deref_all(it, args[0])
        k = args[1]
        if isinstance(v, tuple) and v[0] == "bytes" and isinstance(k, int) and k % 8 == 0:
            n = (k // 8) % len(v[1])
            b = v[1]
            return ("bytes", (b[-n:] + b[:-n]) if right else (b[n:] + b[:n])) if n else v
        raise A.Undecided("rotate of %r by %r" % (v, k))
    return f


def m_iclamp(it, args, callee, depth):
    return ("symop", "iclamp", A.deref_all(it, args[0]), (A.deref_all(it, args[1]), A.deref_all(it, args[2])))


MODELS = {"$u32>::from_be_bytes": m_be, "$u32>::rotate_right": m_rot(True), "$u32>::rotate_left": m_rot(False),
          "cmp::Ord::clamp": m_iclamp, "$i32>::clamp": m_iclamp}


def check_config(rep, prog):
    cfg = prog.config

    def run(path, args, env=None):
        it = S.interp(prog, models=MODELS)
        try:
            return it, A.deref_all(it, it.call_body(prog.body(path), args, env=env or {}))
        except (A.Undecided, A.Panic) as e:
            raise common.Infra("C16: %s could not be evaluated symbolically (%s)" % (path, e))

    def req(ok, rule, key, path, what, got=None):
        rep.inst("C16." + rule, "%s: %s" % (what, "holds" if ok else "FAILS (%s)" % (str(got)[:160],)), config=cfg)
        if not ok:
            rep.violate("C16." + rule, "%s|%s" % (rule, key), prog.body(path).where(), "%s does not hold (computed: %s)" % (what, str(got)[:200]), config=cfg)
    sy = S.sym

    def chans(it, v):
        return [A.deref_all(it, x) for x in S.components(it, v)]
    # ---- K1 packing
    p = COL + "::<[u8; 3], math::color::Rgb>::to_rgb_u32"
    it, r = run(p, [color(["r", "g", "b"])])
    req(r == ("bytes", [0, sy("r"), sy("g"), sy("b")]), "K1", "rgb_u32", p, "to_rgb_u32 = 0x00_RR_GG_BB", r)
    p = COL + "::<[u8; 4], math::color::Rgba>::to_rgba_u32"
    it, r = run(p, [color(["r", "g", "b", "a"])])
    req(r == ("bytes", [sy("r"), sy("g"), sy("b"), sy("a")]), "K1", "rgba_u32", p, "to_rgba_u32 = 0xRR_GG_BB_AA", r)
    p = COL + "::<[u8; 4], math::color::Rgba>::to_argb_u32"
    it, r = run(p, [color(["r", "g", "b", "a"])])
    req(r == ("bytes", [sy("a"), sy("r"), sy("g"), sy("b")]), "K1", "argb_u32", p, "to_argb_u32 = 0xAA_RR_GG_BB", r)
    # ---- K2 channel plumbing
    for ty, alpha in (("u8", 255), ("f32", ("f", 1.0))):
        p = COL + "::<[%s; 3], math::color::Rgb>::to_rgba" % ty
        it, r = run(p, [color(["r", "g", "b"])])
        req(chans(it, r) == [sy("r"), sy("g"), sy("b"), alpha], "K2", "to_rgba-" + ty, p, "%s RGB -> RGBA keeps r,g,b and sets alpha to %s" % (ty, "0xFF" if ty == "u8" else "1.0"), chans(it, r))
        p = COL + "::<[%s; 4], math::color::Rgba>::to_rgb" % ty
        it, r = run(p, [color(["r", "g", "b", "a"])])
        req(chans(it, r) == [sy("r"), sy("g"), sy("b")], "K2", "to_rgb-" + ty, p, "%s RGBA -> RGB keeps r,g,b and drops alpha" % ty, chans(it, r))
        p = COL + "::<[%s; 4], math::color::Hsla>::to_hsl" % ty
        it, r = run(p, [color(["h", "s", "l", "a"])])
        req(chans(it, r) == [sy("h"), sy("s"), sy("l")], "K2", "to_hsl-" + ty, p, "%s HSLA -> HSL keeps h,s,l and drops alpha" % ty, chans(it, r))
    # ---- K2b alpha is carried through the RGBA <-> HSLA conversions (colour part opaque)
    def m_opaque3(it, args, callee, depth):
        return color([("sym", "o0"), ("sym", "o1"), ("sym", "o2")])
    opaque = {"math::color::Hsl>::to_rgb": m_opaque3, "math::color::Rgb>::to_hsl": m_opaque3}
    for path in (COL + "::<[u8; 4], math::color::Hsla>::to_rgba", COL + "::<[f32; 4], math::color::Hsla>::to_rgba",
                 COL + "::<[u8; 4], math::color::Rgba>::to_hsla", COL + "::<[f32; 4], math::color::Rgba>::to_hsla"):
        if path not in prog.bodies:
            continue
        mm = dict(MODELS)
        mm.update(opaque)
        it = S.interp(prog, models=mm)
        try:
            r = A.deref_all(it, it.call_body(prog.body(path), [color(["c0", "c1", "c2", "al"])]))
            cs = chans(it, r)
        except (A.Undecided, A.Panic) as e:
            raise common.Infra("C16: %s could not be evaluated symbolically (%s)" % (path, e))
        req(len(cs) == 4 and cs[3] == sy("al"), "K2", "alpha-" + path.split("Color::")[1], path, "%s carries alpha through unchanged" % path.split("color::Color::")[1], cs)
    # ---- K3 float -> u8
    def is_clamped(v, c):
        # cast:u8( fclamp(c, 0, 1) * 255 )
        if not (isinstance(v, tuple) and v[0] == "symop" and v[1] == "cast:u8"):
            return False
        m = v[2]
        if not (isinstance(m, tuple) and m[0] == "symop" and m[1] == "Mul"):
            return False
        for cl, k in ((m[2], m[3]), (m[3], m[2])):
            if k == ("f", 255.0) and isinstance(cl, tuple) and cl[0] == "symop" and cl[1] == "fclamp" and cl[2] == sy(c) and cl[3] == (("f", 0.0), ("f", 1.0)):
                return True
        return False
    p = COL + "::<[f32; 3], math::color::Rgb>::to_color3"
    it, r = run(p, [color(["r", "g", "b"])])
    cs = chans(it, r)
    req(len(cs) == 3 and all(is_clamped(v, c) for v, c in zip(cs, "rgb")), "K3", "to_color3", p, "Color3f::to_color3: every channel is (clamp(c,0,1)*255) as u8", cs)
    p = COL + "::<[f32; 3], math::color::Rgb>::to_color4"
    it, r = run(p, [color(["r", "g", "b"])])
    cs = chans(it, r)
    req(len(cs) == 4 and all(is_clamped(v, c) for v, c in zip(cs[:3], "rgb")) and cs[3] == 255, "K3", "to_color4", p, "Color3f::to_color4: clamped channels, alpha 0xFF", cs)
    p = COL + "::<[f32; 4], math::color::Rgba>::to_color4"
    it, r = run(p, [color(["r", "g", "b", "a"])])
    cs = chans(it, r)
    req(len(cs) == 4 and all(is_clamped(v, c) for v, c in zip(cs, "rgba")), "K3", "to_color4f", p, "Color4f::to_color4: every channel clamped", cs)
    p = COL + "::<[f32; 4], math::color::Rgba>::to_color3"
    it, r = run(p, [color(["r", "g", "b", "a"])])
    cs = chans(it, r)
    req(len(cs) == 3 and all(is_clamped(v, c) for v, c in zip(cs, "rgb")), "K3", "to_color3f", p, "Color4f::to_color3: clamped r,g,b, alpha dropped", cs)
    # ---- K4 saturating add
    p = "retrofire_core::<math::color::Color<[u8; DIM], Sp> as math::space::Affine>::add"
    diff = ("adt", "retrofire_core::math::vec::Vector", "Vector", [("array", [sy("d0"), sy("d1"), sy("d2")]), ("tuple", [])])
    it, r = run(p, [S.ref_to(color(["c0", "c1", "c2"])), S.ref_to(diff)], env={"DIM": 3})
    cs = chans(it, r)

    def is_sat(v, i):
        if not (isinstance(v, tuple) and v[0] == "symop" and v[1] == "cast:u8"):
            return False
        cl = v[2]
        if not (isinstance(cl, tuple) and cl[0] == "symop" and cl[1] == "iclamp" and cl[3] == (0, 255)):
            return False
        return S.to_poly(cl[2]) == {("c%d" % i,): Fraction(1), ("d%d" % i,): Fraction(1)}
    req(len(cs) == 3 and all(is_sat(v, i) for i, v in enumerate(cs)), "K4", "u8-add", p, "Color<u8> + diff: channel = clamp(i32(c) + d, 0, 255) as u8 (saturates, never wraps)", cs)
    # ---- K5 accessors
    for space, names in (("Rgb", "rgb"), ("Rgba", "rgba"), ("Hsl", "hsl"), ("Hsla", "hsla")):
        col = color(["c%d" % i for i in range(len(names))])
        for i, n in enumerate(names):
            p = COL + "::<R, math::color::%s>::%s" % (space, n)
            it, r = run(p, [S.ref_to(col)])
            req(r == sy("c%d" % i), "K5", "%s-%s" % (space, n), p, "%s::%s() reads channel %d" % (space, n, i), r)


def check(rep, args):
    configs = ["ws"] if rep.tier == "quick" else common.ALL_CONFIGS
    rep.configs = configs
    for cfg in configs:
        check_config(rep, facts.program(cfg))
    cov = {
        "explanation": "symbolic interpretation of the packing, channel-plumbing, clamping and saturating colour functions on symbolic channels",
        "evaluations": len(rep.instances),
        "distinct_nontrivial": len({i["what"] for i in rep.instances}),
        "rules": ["K1", "K2", "K3", "K4", "K5"],
    }
    return "other", cov, ["`as u8` from float saturates and maps NaN to 0 (language semantics)",
                          "HSL<->RGB round-trip accuracy, in-range results and hue wrap are numeric and not decided"]
