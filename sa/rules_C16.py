"""C16 — colour conversions: the structural clauses (packing, channel plumbing,
clamping, saturation). The HSL<->RGB round-trip accuracy is numeric and NOT decided.

Engine A (symbolic channels) decides:
  K1  32-bit packing: to_rgb_u32 = 0x00_RR_GG_BB, to_rgba_u32 = 0xRR_GG_BB_AA,
      to_argb_u32 = 0xAA_RR_GG_BB (byte lists, big-endian; rotate by whole bytes)
  K2  RGB <-> RGBA keep the colour channels in place and set alpha to 0xFF / 1.0,
      resp. drop it; HSLA <-> HSL likewise; the RGBA <-> HSLA pair carries alpha through
  K3  float -> 8-bit: every channel is (clamp(c, 0.0, 1.0) * 255.0) as u8 (saturating cast
      of a clamped value), alpha 0xFF for the 3 -> 4 channel form
  K4  8-bit colour + difference saturates: each channel is
      clamp(i32(channel) + diff, 0, 255) as u8
  K5  accessors r/g/b/a, h/s/l/a read channels 0..3 of their own space
Leaves: HSL round trips (accuracy within 1e-4 / 8/255), in-range results, hue wrap.
"""
from fractions import Fraction

from . import facts, common, absint as A, symalg as S

C = "retrofire_core::math::color::"
COL = C + "Color"


def color(chs):
    return ("adt", COL, "Color", [("array", [S.sym(c) if isinstance(c, str) else c for c in chs]), ("tuple", [])])


def m_be(it, args, callee, depth):
    arr = A.deref_all(it, args[0])
    if isinstance(arr, tuple) and arr[0] == "array":
        return ("bytes", [A.deref_all(it, x) for x in arr[1]])
    raise A.Undecided("from_be_bytes on %r" % (arr,))


def as_bytes(v, width=4):
    """A u32 built from u8 channels, as its big-endian byte list — whichever way it is assembled (from_be_bytes / from_le_bytes,
    whole-byte rotates, or `(r as u32) << 16 | ..`). None when the value is not a byte-aligned assembly of 8-bit values."""
    if isinstance(v, tuple) and v[0] == "bytes":
        return list(v[1])
    if isinstance(v, int):
        return [(v >> (8 * (width - 1 - i))) & 0xFF for i in range(width)]
    if isinstance(v, tuple) and v[0] == "sym":
        return None
    if isinstance(v, tuple) and v[0] == "symop":
        if v[1] in ("cast:u32", "cast:u64", "cast:usize", "cast:i32") and isinstance(v[2], tuple) and v[2][0] == "sym":
            return [0] * (width - 1) + [v[2]]           # an 8-bit channel widened
        if v[1] in ("cast:u32",):
            return as_bytes(v[2], width)
        if v[1] in ("Shl", "Shr") and isinstance(v[3], int) and v[3] % 8 == 0:
            b = as_bytes(v[2], width)
            if b is None:
                return None
            n = min(v[3] // 8, width)
            return (b[n:] + [0] * n) if v[1] == "Shl" else ([0] * n + b[:width - n])
        if v[1] in ("BitOr", "BitXor", "Add"):
            a, b = as_bytes(v[2], width), as_bytes(v[3], width)
            if a is None or b is None:
                return None
            out = []
            for x, y in zip(a, b):
                if x == 0:
                    out.append(y)
                elif y == 0:
                    out.append(x)
                else:
                    return None                      # two channels overlap in one byte
            return out
    return None


def m_le(it, args, callee, depth):
    arr = A.deref_all(it, args[0])
    if isinstance(arr, tuple) and arr[0] == "array":
        return ("bytes", [A.deref_all(it, x) for x in reversed(arr[1])])
    raise A.Undecided("from_le_bytes on %r" % (arr,))


def m_rot(right):
    def f(it, args, callee, depth):
        v = A.deref_all(it, args[0])
        k = args[1]
        if not (isinstance(v, tuple) and v[0] == "bytes") and as_bytes(v) is not None:
            v = ("bytes", as_bytes(v))
        if isinstance(v, tuple) and v[0] == "bytes" and isinstance(k, int) and k % 8 == 0:
            n = (k // 8) % len(v[1])
            b = v[1]
            return ("bytes", (b[-n:] + b[:-n]) if right else (b[n:] + b[:n])) if n else v
        raise A.Undecided("rotate of %r by %r" % (v, k))
    return f


def m_iclamp(it, args, callee, depth):
    return ("symop", "iclamp", A.deref_all(it, args[0]), (A.deref_all(it, args[1]), A.deref_all(it, args[2])))


def m_iminmax(which):
    """Ord::max / Ord::min on a symbolic integer; max(.., lo).min(hi) and min(.., hi).max(lo) with constant lo <= hi are the clamp"""
    def f(it, args, callee, depth):
        a, b = A.deref_all(it, args[0]), A.deref_all(it, args[1])
        if isinstance(a, int) and isinstance(b, int):
            return NotImplemented
        if isinstance(a, int):
            a, b = b, a
        if isinstance(b, int) and isinstance(a, tuple) and a[0] == "symop" and a[1] in ("imax", "imin") and a[1] != which and isinstance(a[3], int):
            lo, hi = (a[3], b) if which == "imin" else (b, a[3])
            if lo <= hi:
                return ("symop", "iclamp", a[2], (lo, hi))
        return ("symop", which, a, b)
    return f


MODELS = {"cmp::Ord::max": m_iminmax("imax"), "cmp::Ord::min": m_iminmax("imin"), "$i32>::max": m_iminmax("imax"), "$i32>::min": m_iminmax("imin"),
          "$u32>::from_be_bytes": m_be, "$u32>::from_le_bytes": m_le, "$u32>::rotate_right": m_rot(True), "$u32>::rotate_left": m_rot(False),
          "cmp::Ord::clamp": m_iclamp, "$i32>::clamp": m_iclamp}


def check_config(rep, prog):
    cfg = prog.config

    def run(path, args, env=None):
        it = S.interp(prog, models=MODELS)
        try:
            return it, A.deref_all(it, it.call_body(prog.body(path), args, env=env or {}))
        except (A.Undecided, A.Panic) as e:
            raise common.Infra("C16: %s could not be evaluated symbolically (%s)" % (path, e))

    def req(ok, rule, key, path, what, got=None):
        rep.inst("C16." + rule, "%s: %s" % (what, "holds" if ok else "FAILS (%s)" % (str(got)[:160],)), config=cfg)
        if not ok:
            rep.violate("C16." + rule, "%s|%s" % (rule, key), prog.body(path).where(), "%s does not hold (computed: %s)" % (what, str(got)[:200]), config=cfg)
    sy = S.sym

    def chans(it, v):
        return [A.deref_all(it, x) for x in S.components(it, v)]
    # ---- K1 packing
    p = COL + "::<[u8; 3], math::color::Rgb>::to_rgb_u32"
    it, r = run(p, [color(["r", "g", "b"])])
    req(as_bytes(r) == [0, sy("r"), sy("g"), sy("b")], "K1", "rgb_u32", p, "to_rgb_u32 = 0x00_RR_GG_BB", r)
    p = COL + "::<[u8; 4], math::color::Rgba>::to_rgba_u32"
    it, r = run(p, [color(["r", "g", "b", "a"])])
    req(as_bytes(r) == [sy("r"), sy("g"), sy("b"), sy("a")], "K1", "rgba_u32", p, "to_rgba_u32 = 0xRR_GG_BB_AA", r)
    p = COL + "::<[u8; 4], math::color::Rgba>::to_argb_u32"
    it, r = run(p, [color(["r", "g", "b", "a"])])
    req(as_bytes(r) == [sy("a"), sy("r"), sy("g"), sy("b")], "K1", "argb_u32", p, "to_argb_u32 = 0xAA_RR_GG_BB", r)
    # ---- K2 channel plumbing
    for ty, alpha in (("u8", 255), ("f32", ("f", 1.0))):
        p = COL + "::<[%s; 3], math::color::Rgb>::to_rgba" % ty
        it, r = run(p, [color(["r", "g", "b"])])
        req(chans(it, r) == [sy("r"), sy("g"), sy("b"), alpha], "K2", "to_rgba-" + ty, p, "%s RGB -> RGBA keeps r,g,b and sets alpha to %s" % (ty, "0xFF" if ty == "u8" else "1.0"), chans(it, r))
        p = COL + "::<[%s; 4], math::color::Rgba>::to_rgb" % ty
        it, r = run(p, [color(["r", "g", "b", "a"])])
        req(chans(it, r) == [sy("r"), sy("g"), sy("b")], "K2", "to_rgb-" + ty, p, "%s RGBA -> RGB keeps r,g,b and drops alpha" % ty, chans(it, r))
        p = COL + "::<[%s; 4], math::color::Hsla>::to_hsl" % ty
        it, r = run(p, [color(["h", "s", "l", "a"])])
        req(chans(it, r) == [sy("h"), sy("s"), sy("l")], "K2", "to_hsl-" + ty, p, "%s HSLA -> HSL keeps h,s,l and drops alpha" % ty, chans(it, r))
    # ---- K2b alpha is carried through the RGBA <-> HSLA conversions (colour part opaque)
    def m_opaque3(it, args, callee, depth):
        return color([("sym", "o0"), ("sym", "o1"), ("sym", "o2")])
    opaque = {"math::color::Hsl>::to_rgb": m_opaque3, "math::color::Rgb>::to_hsl": m_opaque3}
    for path in (COL + "::<[u8; 4], math::color::Hsla>::to_rgba", COL + "::<[f32; 4], math::color::Hsla>::to_rgba",
                 COL + "::<[u8; 4], math::color::Rgba>::to_hsla", COL + "::<[f32; 4], math::color::Rgba>::to_hsla"):
        if path not in prog.bodies:
            continue
        mm = dict(MODELS)
        mm.update(opaque)
        it = S.interp(prog, models=mm)
        try:
            r = A.deref_all(it, it.call_body(prog.body(path), [color(["c0", "c1", "c2", "al"])]))
            cs = chans(it, r)
        except (A.Undecided, A.Panic) as e:
            raise common.Infra("C16: %s could not be evaluated symbolically (%s)" % (path, e))
        req(len(cs) == 4 and cs[3] == sy("al"), "K2", "alpha-" + path.split("Color::")[1], path, "%s carries alpha through unchanged" % path.split("color::Color::")[1], cs)
    # ---- K3 float -> u8
    def is_clamped(v, c):
        # cast:u8( fclamp(c, 0, 1) * 255 )
        if not (isinstance(v, tuple) and v[0] == "symop" and v[1] == "cast:u8"):
            return False
        m = v[2]
        if not (isinstance(m, tuple) and m[0] == "symop" and m[1] == "Mul"):
            return False
        for cl, k in ((m[2], m[3]), (m[3], m[2])):
            if k == ("f", 255.0) and isinstance(cl, tuple) and cl[0] == "symop" and cl[1] == "fclamp" and cl[2] == sy(c) and cl[3] == (("f", 0.0), ("f", 1.0)):
                return True
        return False
    p = COL + "::<[f32; 3], math::color::Rgb>::to_color3"
    it, r = run(p, [color(["r", "g", "b"])])
    cs = chans(it, r)
    req(len(cs) == 3 and all(is_clamped(v, c) for v, c in zip(cs, "rgb")), "K3", "to_color3", p, "Color3f::to_color3: every channel is (clamp(c,0,1)*255) as u8", cs)
    p = COL + "::<[f32; 3], math::color::Rgb>::to_color4"
    it, r = run(p, [color(["r", "g", "b"])])
    cs = chans(it, r)
    req(len(cs) == 4 and all(is_clamped(v, c) for v, c in zip(cs[:3], "rgb")) and cs[3] == 255, "K3", "to_color4", p, "Color3f::to_color4: clamped channels, alpha 0xFF", cs)
    p = COL + "::<[f32; 4], math::color::Rgba>::to_color4"
    it, r = run(p, [color(["r", "g", "b", "a"])])
    cs = chans(it, r)
    req(len(cs) == 4 and all(is_clamped(v, c) for v, c in zip(cs, "rgba")), "K3", "to_color4f", p, "Color4f::to_color4: every channel clamped", cs)
    p = COL + "::<[f32; 4], math::color::Rgba>::to_color3"
    it, r = run(p, [color(["r", "g", "b", "a"])])
    cs = chans(it, r)
    req(len(cs) == 3 and all(is_clamped(v, c) for v, c in zip(cs, "rgb")), "K3", "to_color3f", p, "Color4f::to_color3: clamped r,g,b, alpha dropped", cs)
    # ---- K4 saturating add
    p = "retrofire_core::<math::color::Color<[u8; DIM], Sp> as math::space::Affine>::add"
    diff = ("adt", "retrofire_core::math::vec::Vector", "Vector", [("array", [sy("d0"), sy("d1"), sy("d2")]), ("tuple", [])])
    def run_add(orc):
        it_ = S.interp(prog, models=MODELS, oracle=orc)
        r_ = A.deref_all(it_, it_.call_body(prog.body(p), [S.ref_to(color(["c0", "c1", "c2"])), S.ref_to(diff)], env={"DIM": 3}))
        return chans(it_, r_)
    try:
        paths4 = S.explore(run_add, max_paths=96)        # `if d < 0 { .. } else { .. }` / a hand-written clamp per channel forks
    except (A.Undecided, A.Panic) as e:
        raise common.Infra("C16: %s could not be evaluated symbolically (%s)" % (p, e))
    cs = paths4[0][1]

    def is_sat(v, i):
        if not (isinstance(v, tuple) and v[0] == "symop" and v[1] == "cast:u8"):
            return False
        cl = v[2]
        if not (isinstance(cl, tuple) and cl[0] == "symop" and cl[1] == "iclamp" and cl[3] == (0, 255)):
            return False
        return S.to_poly(cl[2]) == {("c%d" % i,): Fraction(1), ("d%d" % i,): Fraction(1)}
    def proved(v, i, trace):
        """channel i equals clamp(c_i + d_i, 0, 255) on the path with this trace: the clamp spelling itself, or a constant / a plain cast
        under path conditions that bound c_i + d_i accordingly (a clamp written as comparisons)"""
        if is_sat(v, i):
            return True
        want = {("c%d" % i,): Fraction(1), ("d%d" % i,): Fraction(1)}

        def is_sum(t):
            try:
                return S.to_poly(t) == want
            except (S.NotPolynomial, TypeError):
                return False
        lo, hi = None, None
        for op, a_, b_, ans in trace:
            for x, y, o in ((a_, b_, op), (b_, a_, {"Lt": "Gt", "Gt": "Lt", "Le": "Ge", "Ge": "Le"}.get(op, op))):
                if not (is_sum(x) and isinstance(y, int) and not isinstance(y, bool)):
                    continue
                k = y - (1 << 32) if y >= (1 << 31) else y
                if not ans:
                    o = {"Lt": "Ge", "Ge": "Lt", "Gt": "Le", "Le": "Gt", "Eq": "Ne", "Ne": "Eq"}[o]
                if o == "Lt":
                    hi = k - 1 if hi is None else min(hi, k - 1)
                elif o == "Le":
                    hi = k if hi is None else min(hi, k)
                elif o == "Gt":
                    lo = k + 1 if lo is None else max(lo, k + 1)
                elif o == "Ge":
                    lo = k if lo is None else max(lo, k)
                elif o == "Eq":
                    lo, hi = k, k
        if isinstance(v, int) and not isinstance(v, bool):
            return (v == 0 and hi is not None and hi <= 0) or (v == 255 and lo is not None and lo >= 255) or (lo is not None and lo == hi == v and 0 <= v <= 255)
        if isinstance(v, tuple) and v[0] == "symop" and v[1] == "cast:u8" and is_sum(v[2]):
            return lo is not None and hi is not None and lo >= 0 and hi <= 255
        return False
    ok4 = all(len(c_) == 3 and all(proved(v, i, t_) for i, v in enumerate(c_)) for t_, c_ in paths4)
    if not ok4 and all(len(c_) == 3 for _t, c_ in paths4):
        # another formula: refuted by a channel / difference pair on which it is not clamp(c + d, 0, 255), or left undecided
        def ev(v, pt):
            if isinstance(v, bool):
                return int(v)
            if isinstance(v, int):
                return v
            if isinstance(v, tuple) and v[0] == "sym":
                return pt[v[1]]
            if isinstance(v, tuple) and v[0] == "symop":
                op = v[1]
                a_ = ev(v[2], pt)
                if op == "iclamp":
                    return None if a_ is None else min(max(a_, v[3][0]), v[3][1])
                if op.startswith("cast:"):
                    if a_ is None:
                        return None
                    bits = {"u8": 8, "u16": 16, "u32": 32, "i32": 32, "i64": 64, "u64": 64, "usize": 64}.get(op[5:])
                    if bits is None:
                        raise ValueError(op)
                    r_ = a_ & ((1 << bits) - 1)
                    return r_ - (1 << bits) if op[5:].startswith("i") and r_ >> (bits - 1) else r_
                if op.startswith("try_from:"):
                    lo_, hi_ = {"u8": (0, 255), "i8": (-128, 127), "u16": (0, 65535), "u32": (0, 2 ** 32 - 1)}.get(op[9:], (None, None))
                    if lo_ is None:
                        raise ValueError(op)
                    return a_ if (a_ is not None and lo_ <= a_ <= hi_) else None
                b_ = ev(v[3], pt) if len(v) > 3 and v[3] is not None else None
                if op.startswith("unsigned_abs"):
                    return None if a_ is None else abs(a_)
                if op == "unwrap_or":
                    return a_ if a_ is not None else b_
                if a_ is None or b_ is None:
                    return None
                I32 = (-2 ** 31, 2 ** 31 - 1)
                if ":" in op and op.split(":")[0] in ("saturating_add", "saturating_sub", "wrapping_add", "wrapping_sub", "unsigned_abs", "abs_diff"):
                    nm_, ty_ = op.split(":")
                    bits_ = {"u8": 8, "i8": 8, "u16": 16, "i16": 16, "u32": 32, "i32": 32, "u64": 64, "i64": 64, "usize": 64, "isize": 64}[ty_]
                    lo_, hi_ = (-(1 << (bits_ - 1)), (1 << (bits_ - 1)) - 1) if ty_.startswith("i") else (0, (1 << bits_) - 1)
                    if nm_ == "unsigned_abs":
                        return abs(a_)
                    r_ = {"saturating_add": a_ + b_, "wrapping_add": a_ + b_, "saturating_sub": a_ - b_, "wrapping_sub": a_ - b_, "abs_diff": abs(a_ - b_)}[nm_]
                    if nm_.startswith("saturating"):
                        return min(max(r_, lo_), hi_)
                    if nm_.startswith("wrapping"):
                        r_ &= (1 << bits_) - 1
                        return r_ - (1 << bits_) if ty_.startswith("i") and r_ >> (bits_ - 1) else r_
                    return r_
                if op == "Add":
                    return a_ + b_
                if op == "Sub":
                    return a_ - b_
                if op in ("imax", "imin"):
                    return max(a_, b_) if op == "imax" else min(a_, b_)
                if op == "saturating_add":
                    return min(max(a_ + b_, I32[0]), I32[1])
                if op == "saturating_sub":
                    return min(max(a_ - b_, I32[0]), I32[1])
                if op == "wrapping_add":
                    return ((a_ + b_ + 2 ** 31) % 2 ** 32) - 2 ** 31
            raise ValueError(str(v)[:40])
        wit = None
        try:
            for c_ in (0, 10, 200, 255):
                for d_ in (-300, -256, -20, 0, 20, 256, 300, 510, 2 ** 31 - 1, -2 ** 31):
                    pt = {"c0": c_, "c1": c_, "c2": c_, "d0": d_, "d1": d_, "d2": d_}
                    for tr_, cs_ in paths4:
                        # the path this channel / difference pair takes (decisions on other channels' differences coincide: all three are equal)
                        if not all({"Lt": ev(a_, pt) < ev(b_, pt), "Le": ev(a_, pt) <= ev(b_, pt), "Gt": ev(a_, pt) > ev(b_, pt), "Ge": ev(a_, pt) >= ev(b_, pt),
                                    "Eq": ev(a_, pt) == ev(b_, pt), "Ne": ev(a_, pt) != ev(b_, pt)}[op_] == ans_ for op_, a_, b_, ans_ in tr_):
                            continue
                        for i_, v_ in enumerate(cs_):
                            got_ = ev(v_, pt)
                            if got_ is None:
                                raise ValueError("channel %d has no value for c = %d, d = %d" % (i_, c_, d_))
                            want_ = min(max(c_ + d_, 0), 255)
                            if got_ != want_ and wit is None:
                                wit = (c_, d_, got_, want_)
        except ValueError as e:
            raise common.Infra("C16.K4: Color<u8> + diff is computed by a formula the rule cannot evaluate (%s); rule needs re-confirmation" % e)
        if wit is None:
            raise common.Infra("C16.K4: Color<u8> + diff is not written as clamp(i32(c) + d, 0, 255) as u8 and no channel / difference pair refutes it; rule needs re-confirmation")
        rep.inst("C16.K4", "Color<u8> + diff: another formula, refuted by channel %d + difference %d -> %s (saturation gives %d)" % wit, config=cfg)
        rep.violate("C16.K4", "K4|u8-add", prog.body(p).where(), "Color<u8> + diff does not saturate: channel %d + difference %d gives %s, clamp(c + d, 0, 255) is %d" % wit, config=cfg)
    else:
        req(ok4, "K4", "u8-add", p, "Color<u8> + diff: channel = clamp(i32(c) + d, 0, 255) as u8 (saturates, never wraps)%s" % (
            "" if len(paths4) == 1 else " on each of the %d paths through its comparisons" % len(paths4)), cs)
    # ---- K5 accessors
    for space, names in (("Rgb", "rgb"), ("Rgba", "rgba"), ("Hsl", "hsl"), ("Hsla", "hsla")):
        col = color(["c%d" % i for i in range(len(names))])
        for i, n in enumerate(names):
            p = COL + "::<R, math::color::%s>::%s" % (space, n)
            it, r = run(p, [S.ref_to(col)])
            req(r == sy("c%d" % i), "K5", "%s-%s" % (space, n), p, "%s::%s() reads channel %d" % (space, n, i), r)


def sector_rules(rep, prog):
    """K6: HSL -> RGB picks its hue sextant by floor(6h) (8-bit: floor(6h / 256)) in both the 8-bit and the float implementation,
    and the six arms assign (c, x, 0) to the channels by the standard table — the two siblings must agree with each other and
    with the table. The selector is interpreted over the classes of the (non-negative) scaled hue relative to its floor, like
    the texture coordinate in C12."""
    from . import term as T
    from .rules_C12 import floor_offset
    cfg = prog.config
    STD = {0: ("c", "x", "0"), 1: ("x", "c", "0"), 2: ("0", "c", "x"), 3: ("0", "x", "c"), 4: ("x", "0", "c"), 5: ("c", "0", "x")}
    tables = {}
    for label, path in (("f32", COL + "::<[f32; 3], math::color::Hsl>::to_rgb"), ("u8", COL + "::<[u8; 3], math::color::Hsl>::to_rgb")):
        b0 = prog.body(path)
        # a sextant helper shared by the two siblings is inlined for the selector rule
        b = prog.inlined(b0, depth=2, pred=lambda cb: cb.path.startswith(C))
        sl = T.Slicer(b)
        sw = [(bi, blk["term"]) for bi, blk in enumerate(b.blocks) if blk["term"]["k"] == "SwitchInt" and len(blk["term"].get("targets", [])) >= 5]   # (the last sextant may be a range / catch-all arm)
        if not sw:
            # no six-way switch (the arms are a table, say): the selector and the table are decided by evaluation alone (hue_value_rules)
            rep.inst("C16.K6", "%s Hsl::to_rgb has no six-way sector switch: sextant selection and channel table are decided by evaluating the conversion at "
                               "fixed hues only" % label, config=cfg)
            continue
        bi, t = sw[0]
        d = T.strip(sl.operand(t["discr"]), sites=True, refs=True)
        if label == "f32":
            # selector = float -> int conversion of an expression of h' = 6h: mark `h * 6.0` as the coordinate
            def mark(q):
                if not isinstance(q, tuple):
                    return q
                if q[0] == "bin" and q[1] == "Mul" and ("const", "f32", 6.0) in (q[2], q[3]):
                    return ("call", "hue::COORD", ())
                return tuple(mark(x) if isinstance(x, tuple) else x for x in q)
            marked = mark(d)
            bad = []
            for cls in ("zero or positive integer", "positive non-integer"):
                r = floor_offset(prog, marked, "::COORD", cls)
                if r[0] == "unknown":
                    raise common.Infra("C16.K6: the sector selector of the float to_rgb has a form the floor analysis cannot classify (%s)" % r[1])
                if r[0] == "bad":
                    bad.append(r[1])
                elif r != ("off", 0):
                    bad.append("6h a %s -> floor(6h) %+d" % (cls, r[1]))
            rep.inst("C16.K6", "float Hsl::to_rgb selects the sextant by floor(6h): %s  [%s]" % ("yes" if not bad else "NO: " + "; ".join(bad), T.show(d)[:80]), config=cfg)
            if bad:
                rep.violate("C16.K6", "K6|selector-f32", b.where(bi, None),
                            "Color3f<Hsl>::to_rgb does not pick the hue sextant by floor(6h): %s — for hues in the wrong part of each sextant the channels are permuted "
                            "(the 8-bit sibling uses 6h / 256, i.e. the floor)" % "; ".join(sorted(set(bad))), config=cfg)
        else:
            ok = d[0] == "bin" and d[1] == "Div" and T.strip(d[3], refs=True) == ("const", "i32", 256) and "Mul" in T.show(d[2]) and "6" in T.show(d[2])
            rep.inst("C16.K6", "8-bit Hsl::to_rgb selects the sextant by (6h) / 256: %s  [%s]" % (ok, T.show(d)[:80]), config=cfg)
            if not ok:
                rep.violate("C16.K6", "K6|selector-u8", b.where(bi, None), "Color3<Hsl>::to_rgb does not pick the hue sextant by 6h / 256 (%s)" % T.show(d)[:120], config=cfg)
        # the arms: interpret to_rgb once per sextant with the selector fixed, and read off which of c, x, 0 lands in which channel
        table = {}
        for j in range(6):
            it = S.interp(prog, models=MODELS, oracle=lambda op, a_, b_: True)       # the debug range assertions hold (in-range input)
            it.float_to_int = lambda v, to, j=j: j if not (isinstance(v, tuple) and v[0] == "f") else None
            orig_binop = it.binop

            def binop(op, a_, b_, ty, j=j, orig=orig_binop):
                r_ = orig(op, a_, b_, ty)
                return r_
            chs = ["h", "s", "l"]
            try:
                if label == "f32":
                    r = A.deref_all(it, it.call_body(b0, [color(chs)]))
                    outs = [A.deref_all(it, x) for x in S.components(it, r)]
                else:
                    outs = None
            except (A.Undecided, A.Panic) as e:
                raise common.Infra("C16.K6: %s to_rgb could not be interpreted for sextant %d (%s)" % (label, j, e))
            if outs is None:
                continue
            # c, x, m as the code's own expressions are not needed: channels are told apart by their dependence on the opaque terms:
            # the channel holding 0 is exactly m; c and x differ in containing the `h % 2` term
            polys = [S.to_poly(o) for o in outs]
            mset = None
            kinds = []
            for pz in polys:
                has_mod = any("Rem" in sy_ for mono in pz for sy_ in mono)
                kinds.append("x" if has_mod else None)
            rest = [i for i, k_ in enumerate(kinds) if k_ is None]
            if len(rest) == 2:
                # of the two remaining channels the one with fewer terms is m alone ("0"), the other m + c
                a_, b2 = rest
                from . import poly as PL
                diff = PL.padd(polys[a_], {m_: -c_ for m_, c_ in polys[b2].items()})       # +-c with c = (1 - |2l - 1|) s = s - s|..|
                lead = diff.get(("s",), 0)
                if lead > 0:
                    kinds[a_], kinds[b2] = "c", "0"
                elif lead < 0:
                    kinds[a_], kinds[b2] = "0", "c"
            table[j] = tuple(k_ or "?" for k_ in kinds)
        if table:
            tables[label] = table
            okt = all(table[j] == STD[j] for j in range(6))
            rep.inst("C16.K6", "%s Hsl::to_rgb sextant table %s: %s" % (label, table, "standard" if okt else "NOT the standard (c,x,0) permutations"), config=cfg)
            if not okt and not any("?" in "".join(v) for v in table.values()):
                rep.violate("C16.K6", "K6|table-%s" % label, b.where(),
                            "%s Hsl::to_rgb assigns chroma/intermediate/zero to the channels as %s, the standard table is %s" % (label, table, STD), config=cfg)
            elif not okt:
                raise common.Infra("C16.K6: could not classify the channels of the %s sextant arms (%s)" % (label, table))


def hue_value_rules(rep, prog):
    """K6 (values): the float HSL -> RGB conversion evaluated at hue constants that are exact in binary - 0, 1/8, 1/4, 3/8, 1/2, 5/8, 3/4,
    7/8 and 1 - with saturation and lightness symbolic. With m and c read off the code's own result at hue 0 ((c + m, m, m), and
    m + c/2 = l), every channel must be m + k c with k from the standard table (x = c (1 - |6h mod 2 - 1|)); hue 1 must give what hue 0
    gives. Decides the in-sextant value of the middle channel and the wrap at hue 1, which the permutation table (above) does not."""
    from . import poly as PL
    cfg = prog.config
    path = COL + "::<[f32; 3], math::color::Hsl>::to_rgb"
    body = prog.body(path)

    def at(h):
        it = S.interp(prog, models=MODELS, oracle=lambda op, a_, b_: True if not all(isinstance(x, tuple) and x[0] == "f" for x in (a_, b_)) else None)
        try:
            r = A.deref_all(it, it.call_body(body, [color([("f", h), "s", "l"])]))
            return [S.to_poly(A.deref_all(it, x)) for x in S.components(it, r)]
        except (A.Undecided, A.Panic, S.NotPolynomial) as e:
            raise common.Infra("C16.K6: the float to_rgb could not be evaluated at hue %g (%s)" % (h, e))

    def close(pa, pb):
        keys = set(pa) | set(pb)
        return all(abs(float(pa.get(k, 0)) - float(pb.get(k, 0))) < 1e-5 for k in keys)

    def lin(m_, c_, k):
        return PL.padd(m_, {mono: co * Fraction(k).limit_denominator(64) for mono, co in c_.items()})
    r0 = at(0.0)
    if len(r0) != 3:
        raise common.Infra("C16.K6: the float to_rgb does not return three channels")
    m_ = r0[2]
    c_ = PL.padd(r0[0], {mono: -co for mono, co in m_.items()})
    sane = close(r0[1], m_) and close(lin(m_, c_, 0.5), {("l",): Fraction(1)}) and any(abs(float(co)) > 1e-9 for co in c_.values())
    rep.inst("C16.K6", "float Hsl::to_rgb at hue 0 is (c + m, m, m) with m + c/2 = l: %s" % sane, config=cfg)
    if not sane:
        rep.violate("C16.K6", "K6|hue-zero", body.where(), "Color3f<Hsl>::to_rgb at hue 0 is not (c + m, m, m) with m = l - c/2 (pure red at full saturation)", config=cfg)
        return
    table = {0.125: (1, .75, 0), 0.25: (.5, 1, 0), 0.375: (0, 1, .25), 0.5: (0, 1, 1), 0.625: (0, .25, 1), 0.75: (.5, 0, 1), 0.875: (1, 0, .75), 1.0: (1, 0, 0)}
    bad = []
    for h, ks in table.items():
        got = at(h)
        if not (len(got) == 3 and all(close(g, lin(m_, c_, k)) for g, k in zip(got, ks))):
            def coef(g):
                # the multiple of c in this channel, read off the coefficient of s
                cs_ = float(c_.get(("s",), 0))
                return round((float(g.get(("s",), 0)) - float(m_.get(("s",), 0))) / cs_, 3) if cs_ else "?"
            bad.append("hue %g gives m + c * %s, expected m + c * %s" % (h, tuple(coef(g) for g in got), ks))
    rep.inst("C16.K6", "float Hsl::to_rgb at hues 1/8 .. 7/8 and 1 (saturation, lightness symbolic): channels = m + c * (standard table value): %s" % (not bad), config=cfg)
    if bad:
        rep.violate("C16.K6", "K6|hue-values", body.where(), "Color3f<Hsl>::to_rgb does not realise the standard hue ramp: %s%s" % (
            "; ".join(bad[:2]), " (hue 1 must equal hue 0)" if any(b.startswith("hue 1 ") for b in bad) else ""), config=cfg)


def u8_hue_rules(rep, prog):
    """K6 (values, 8-bit): Color3<Hsl>::to_rgb folded on the constants hsl(h, 255, 128) for hues at both ends and in the middle of every
    sextant: with c = 255 and m = 0..1 the channels must be (about) 255, 255 x'/256 and 0 in the standard arrangement of the sextant
    6h / 256, x' = 256 - |6h mod 512 - 256| - within the property's 8/255. Decides selector, table and the middle channel's ramp of the
    8-bit conversion whatever its shape (match, table, helper)."""
    cfg = prog.config
    STD = {0: "cx0", 1: "xc0", 2: "0cx", 3: "0xc", 4: "x0c", 5: "c0x"}
    path = COL + "::<[u8; 3], math::color::Hsl>::to_rgb"
    body = prog.body(path)
    bad = []
    hues = (0, 21, 42, 43, 64, 85, 86, 107, 127, 128, 149, 170, 171, 192, 213, 214, 235, 255)
    for h in hues:
        it = S.interp(prog, models=MODELS, oracle=lambda op, a_, b_: None)
        try:
            r = A.deref_all(it, it.call_body(body, [color([h, 255, 128])]))
            got = [A.deref_all(it, x) for x in S.components(it, r)]
        except (A.Undecided, A.Panic) as e:
            if isinstance(e, A.Panic):
                bad.append("hsl(%d, 255, 128) panics (%s)" % (h, str(e)[:60]))
                continue
            raise common.Infra("C16.K6: the 8-bit to_rgb could not be folded for hue %d (%s)" % (h, e))
        if len(got) != 3 or not all(isinstance(v, int) and not isinstance(v, bool) for v in got):
            raise common.Infra("C16.K6: the 8-bit to_rgb did not fold to three constants for hue %d (%s)" % (h, str(got)[:80]))
        k = (6 * h) // 256
        xp = 256 - abs((6 * h) % 512 - 256)
        want = {"c": 255.0, "x": 255.0 * xp / 256, "0": 0.0}
        if any(abs(g - want[ch]) > 8 for g, ch in zip(got, STD[k])):
            bad.append("hsl(%d, 255, 128) -> %s, expected about %s (sextant %d)" % (h, got, [round(want[ch]) for ch in STD[k]], k))
    rep.inst("C16.K6", "8-bit Hsl::to_rgb folded at %d hues (both ends and the middle of every sextant, full saturation): sextant 6h/256, standard channel "
                       "arrangement, middle channel 255 x'/256 within 8/255: %s" % (len(hues), not bad), config=cfg)
    if bad:
        rep.violate("C16.K6", "K6|hue-values-u8", body.where(), "Color3<Hsl>::to_rgb does not realise the standard hue ramp: %s" % "; ".join(bad[:3]), config=cfg)


def _fold_int(v):
    """a constant that the clamp / cast models left as a term"""
    if isinstance(v, int) and not isinstance(v, bool):
        return v
    if isinstance(v, tuple) and v[0] == "symop":
        if v[1] == "iclamp":
            x = _fold_int(v[2])
            return None if x is None else min(max(x, v[3][0]), v[3][1])
        if v[1].startswith("cast:"):
            x = _fold_int(v[2])
            bits = {"u8": 8, "u16": 16, "u32": 32, "i32": 32, "usize": 64, "i64": 64}.get(v[1][5:])
            if x is None or bits is None:
                return None
            x &= (1 << bits) - 1
            return x - (1 << bits) if v[1][5:].startswith("i") and x >> (bits - 1) else x
    return None


def u8_to_hsl_rules(rep, prog):
    """K6 (values, 8-bit, the other direction): Color3<Rgb>::to_hsl folded on constants for every ordering of the three channels (strict and
    with ties), the primaries, secondaries and grays at several lightnesses: hue, saturation and lightness must be the standard HSL of the
    colour scaled to 0..255 within the property's 8/255 (hue compared on the circle). A branch taken for one ordering only - the red
    sector's wrap-around, a tie-break - shows here."""
    cfg = prog.config
    path = COL + "::<[u8; 3], math::color::Rgb>::to_hsl"
    body = prog.body(path)
    cols = [(255, 0, 128), (255, 128, 0), (128, 255, 0), (0, 255, 128), (0, 128, 255), (128, 0, 255), (200, 40, 90), (200, 90, 40), (90, 200, 40),
            (40, 200, 90), (40, 90, 200), (90, 40, 200), (255, 0, 0), (0, 255, 0), (0, 0, 255), (255, 255, 0), (0, 255, 255), (255, 0, 255),
            (255, 0, 1), (255, 1, 0), (0, 0, 0), (255, 255, 255), (128, 128, 128), (10, 10, 10), (250, 240, 245), (20, 10, 15), (130, 120, 120)]
    bad = []
    for r_, g_, b_ in cols:
        it = S.interp(prog, models=MODELS, oracle=lambda op, a_, b2: None)
        try:
            r = A.deref_all(it, it.call_body(body, [color([r_, g_, b_])]))
            got = [A.deref_all(it, x) for x in S.components(it, r)]
            got = [g if _fold_int(g) is None else _fold_int(g) for g in got]
        except A.Panic as e:
            bad.append("rgb(%d, %d, %d) panics (%s)" % (r_, g_, b_, str(e)[:60]))
            continue
        except A.Undecided as e:
            raise common.Infra("C16.K6: the 8-bit to_hsl could not be folded for rgb(%d, %d, %d) (%s)" % (r_, g_, b_, e))
        if len(got) != 3 or not all(isinstance(v, int) and not isinstance(v, bool) for v in got):
            raise common.Infra("C16.K6: the 8-bit to_hsl did not fold to three constants for rgb(%d, %d, %d) (%s)" % (r_, g_, b_, str(got)[:80]))
        mx, mn = max(r_, g_, b_), min(r_, g_, b_)
        d = mx - mn
        l = (mx + mn) / 2.0
        sat = 0.0 if d == 0 or l in (0.0, 255.0) else d / (255.0 - abs(2 * l - 255.0)) * 255.0
        if d == 0:
            hue = 0.0
        elif mx == r_:
            hue = ((g_ - b_) / d) % 6
        elif mx == g_:
            hue = (b_ - r_) / d + 2
        else:
            hue = (r_ - g_) / d + 4
        hue = hue / 6 * 256
        dh = min(abs(got[0] - hue) % 256, 256 - abs(got[0] - hue) % 256)
        if (d > 4 and dh > 8) or abs(got[1] - sat) > 8 + (40 if d <= 16 else 0) or abs(got[2] - l) > 8:
            bad.append("rgb(%d, %d, %d) -> hsl%s, the standard HSL is about (%d, %d, %d)" % (r_, g_, b_, tuple(got), round(hue) % 256, round(sat), round(l)))
    rep.inst("C16.K6", "8-bit Rgb::to_hsl folded on %d colours (every ordering of the channels, ties, primaries, secondaries, grays): standard hue / saturation / "
                       "lightness within 8/255: %s" % (len(cols), not bad), config=cfg)
    if bad:
        rep.violate("C16.K6", "K6|to_hsl-values-u8", body.where(), "Color3<Rgb>::to_hsl does not give the standard HSL: %s" % "; ".join(bad[:3]), config=cfg)


def check(rep, args):
    configs = ["ws"] if rep.tier == "quick" else common.ALL_CONFIGS
    rep.configs = configs
    for cfg in configs:
        rep.guard(check_config, rep, facts.program(cfg))
        rep.guard(sector_rules, rep, facts.program(cfg))
        rep.guard(hue_value_rules, rep, facts.program(cfg))
        rep.guard(u8_hue_rules, rep, facts.program(cfg))
        rep.guard(u8_to_hsl_rules, rep, facts.program(cfg))
        from .rules_C16_int import int_panic_rules
        rep.guard(int_panic_rules, rep, facts.program(cfg))
    cov = {
        "explanation": "symbolic interpretation of the packing, channel-plumbing, clamping and saturating colour functions on symbolic channels",
        "evaluations": len(rep.instances),
        "distinct_nontrivial": len({i["what"] for i in rep.instances}),
        "rules": ["K1", "K2", "K3", "K4", "K5", "K6", "K7"],
    }
    return "other", cov, ["`as u8` from float saturates and maps NaN to 0 (language semantics)",
                          "HSL<->RGB round-trip accuracy, in-range results and hue wrap are numeric and not decided"]
