"""Behaviour of the two `Target::rasterize` impls, by abstract interpretation over scenarios (C06 W1-W3, C07 F1-F2).

One scanline of three fragments (row 1, x = 1..3 of a 5 x 2 buffer whose cells are symbols c0..c9 / d0..d9; the scanline's
varyings start at depth z0 and step by dz, so fragment k has depth z0 + k dz through the code's own `fragments()`) is pushed through the impl's MIR
once per scenario of the facts the properties speak about:

    depth predicate of the context   None | Some(Less) | Some(Equal) | Some(Greater)
    order of the stored and the new reciprocal depth of each fragment   lt | eq | gt | unordered
    fragment shader result of each fragment   Some(colour) | None
    color_write, depth_write

The fragment shader, the colour packing and the float comparison are uninterpreted (the comparison answers
from the scenario, whichever way round and with whichever operator it is asked). What is read off afterwards is the state of the
two buffers and the returned Throughput; the specification it is held against is per fragment k at cell x0 + k:

    pass_k   = no predicate, or cmp(stored, new) == predicate            (colour-only target: always)
    write_k  = pass_k and the shader returned a colour
    colour'  = packed colour if write_k and color_write, else unchanged
    depth'   = the tested new depth if write_k and depth_write, else unchanged
    o        = number of k with write_k and color_write;   i = max(xs.end, xs.start) - xs.start
    every other cell unchanged

This is independent of how the impl spells its tests (nested ifs, early returns, `bool::then`, match guards, an inlined
depth_test, flags read into locals before the loop, a for loop instead of for_each ...). A deviation is attributed to the
clause it breaks (see `classify`)."""
from fractions import Fraction

from . import absint as A, symalg as S, constfold as CF
from .render_common import FB_RASTERIZE, BUF_RASTERIZE

RC = "retrofire_core::"
ORD = "core::cmp::Ordering"
OPT = "core::option::Option"
NONE = ("adt", OPT, "None", [])
RELS = ("lt", "eq", "gt", "un")
FLIP = {"lt": "gt", "gt": "lt", "eq": "eq", "un": "un"}
ORD_NAME = {"lt": "Less", "eq": "Equal", "gt": "Greater"}
X0, NFRAG, WIDTH, HEIGHT, ROW = 1, 3, 5, 2, 1
NCELL = WIDTH * HEIGHT
BASE = ROW * WIDTH           # linear index of the scanline's row


def some(x):
    return ("adt", OPT, "Some", [x])


def ordv(n):
    return ("adt", ORD, n, [])


def _adt(prog, path, fields):
    v = prog.adts[path]["variants"][0]
    missing = [f for f in v["fields"] if f not in fields]
    if missing:
        raise A.Undecided("%s has fields the scenario does not provide: %s" % (path, missing))
    return ("adt", path, v["name"], [fields[f] for f in v["fields"]])


def _mutslice(prog, cell, w, h):
    inner = _adt(prog, RC + "util::buf::inner::Inner", {"dims": ("tuple", [w, h]), "stride": w, "data": ("ref", cell, 0, []),
                                                         "_pd": ("adt", "core::marker::PhantomData", "PhantomData", [])})
    return _adt(prog, RC + "util::buf::MutSlice2", {"0": inner})


def run(prog, which, setting, rels, shades, cw, dw, xs=(X0, X0 + NFRAG), fork=None):
    """-> dict(i, o, colour=[..4], depth=[..4], shaded=[k..], foreign=[(a, b)..], panic=None|str)"""
    ccell, zcell = A.Frame(None), A.Frame(None)
    ccell.locals[0] = ("array", [S.sym("c%d" % i) for i in range(NCELL)])
    zcell.locals[0] = ("array", [S.sym("d%d" % i) for i in range(NCELL)])
    selfcell = A.Frame(None)
    if which == "framebuf":
        selfcell.locals[0] = _adt(prog, RC + "render::target::Framebuf", {"color_buf": _mutslice(prog, ccell, WIDTH, HEIGHT), "depth_buf": _mutslice(prog, zcell, WIDTH, HEIGHT)})
        body = prog.body(FB_RASTERIZE)
    else:
        selfcell.locals[0] = _mutslice(prog, ccell, WIDTH, HEIGHT)
        body = prog.body(BUF_RASTERIZE)
    nfrag = max(xs[1], xs[0]) - xs[0]
    VEC = RC + "math::vec::Vector"
    PT = RC + "math::point::Point"
    val = ("tuple", [("adt", PT, "Point", [("array", [S.sym("px"), S.sym("py"), S.sym("z0")]), ("tuple", [])]), S.sym("a0")])
    step = ("tuple", [("adt", VEC, "Vector", [("array", [("f", 1.0), ("f", 0.0), S.sym("dz")]), ("tuple", [])]), S.sym("da")])
    vs = _adt(prog, RC + "math::vary::Iter", {"val": val, "step": step, "n": NONE})
    sl = _adt(prog, RC + "render::raster::Scanline", {"y": ROW, "xs": ("adt", "core::ops::range::Range", "Range", [xs[0], xs[1]]), "vs": vs})
    ctx = _adt(prog, RC + "render::ctx::Context", {"color_clear": NONE, "depth_clear": NONE, "face_cull": NONE, "depth_sort": NONE, "depth_test": setting,
                                                   "color_write": int(cw), "depth_write": int(dw), "stats": ("sym", "STATS")})
    ctxcell = A.Frame(None)
    ctxcell.locals[0] = ctx
    shaded, foreign = [], []

    zpoly = [{("z0",): Fraction(1), **({("dz",): Fraction(k)} if k else {})} for k in range(8)]

    def z_no(v):
        """k when v is the depth z0 + k dz of fragment k (however the sum was formed)"""
        try:
            p = S.to_poly(v)
        except S.NotPolynomial:
            return None
        return zpoly.index(p) if p in zpoly else None

    def frag_no(it, fr):
        return z_no(A.deref_all(it, S.components(it, fr[3][0])[2]))

    def m_shade(it, args, c, d):
        k = frag_no(it, A.deref_all(it, args[1]))
        if k is None:
            raise A.Undecided("shade_fragment on something that is not one of the scanline's fragments")
        shaded.append(k)
        return some(("sym", "col%d" % k)) if k < len(shades) and shades[k] else NONE

    def m_argb(it, args, c, d):
        return ("symop", "argb", A.deref_all(it, args[0]), None)

    def rel_of(a, b):
        """scenario order of a relative to b when (a, b) is (stored depth of pixel x0+k, depth of fragment k) either way round"""
        for x, y, flip in ((a, b, False), (b, a, True)):
            k = z_no(y)
            if isinstance(x, tuple) and x[0] == "sym" and x[1][0] == "d" and x[1][1:].isdigit() and k is not None:
                cell = int(x[1][1:])
                if cell != BASE + xs[0] + k:
                    foreign.append((x[1], "fragment %d" % k))            # fragment k tested against another pixel's depth
                r = rels[k] if k < len(rels) else "un"
                return FLIP[r] if flip else r
        if z_no(a) is not None and z_no(a) == z_no(b):
            return "eq"                                                   # a depth compared with itself (stored before it is tested)
        return None

    def m_pcmp(it, args, c, d):
        a, b = A.deref_all(it, args[0]), A.deref_all(it, args[1])
        r = rel_of(a, b)
        if r is None:
            return NotImplemented
        return NONE if r == "un" else some(ordv(ORD_NAME[r]))

    def orc(op, a, b):
        r = rel_of(a, b)
        if r is None:
            return fork(op, a, b) if fork is not None else None
        return {"Lt": r == "lt", "Gt": r == "gt", "Le": r in ("lt", "eq"), "Ge": r in ("gt", "eq"), "Eq": r == "eq", "Ne": r != "eq"}[op]
    models = dict(CF.MODELS)
    models.update({"FragmentShader::shade_fragment": m_shade, "to_argb_u32": m_argb,
                   "PartialOrd::partial_cmp": m_pcmp, "PartialOrd for f32>::partial_cmp": m_pcmp})
    it = S.interp(prog, models=models, oracle=orc)
    out = {"panic": None}
    try:
        r = A.deref_all(it, it.call_body(body, [("ref", selfcell, 0, []), sl, ("sym", "FS"), ("ref", ctxcell, 0, [])], env={"V": "f32"}))
        tp = prog.adts[RC + "render::stats::Throughput"]["variants"][0]["fields"]
        out["i"], out["o"] = A.deref_all(it, r[3][tp.index("i")]), A.deref_all(it, r[3][tp.index("o")])
    except A.Panic as e:
        out["panic"] = str(e)
        out["i"] = out["o"] = None
    out["colour"] = [A.deref_all(it, v) for v in ccell.locals[0][1]]
    out["depth"] = [A.deref_all(it, v) for v in zcell.locals[0][1]]
    out["shaded"], out["foreign"] = shaded, foreign
    return out


def zexpr(k):
    return S.sym("z0") if k == 0 else ("symop", "Add", S.sym("z0"), ("symop", "Mul", S.sym("dz"), ("f", float(k))))


def same(a, b):
    if a == b:
        return True
    try:
        return S.to_poly(a) == S.to_poly(b)
    except S.NotPolynomial:
        return False


def passes(which, setting, rel):
    if which != "framebuf" or setting == NONE:
        return True
    return rel != "un" and ORD_NAME[rel] == setting[3][0][2]


def expected(which, setting, rels, shades, cw, dw, xs=(X0, X0 + NFRAG)):
    colour = [S.sym("c%d" % i) for i in range(NCELL)]
    depth = [S.sym("d%d" % i) for i in range(NCELL)]
    o = 0
    n = max(xs[1], xs[0]) - xs[0]
    for k in range(n):
        w = passes(which, setting, rels[k]) and shades[k]
        if w and cw:
            colour[BASE + xs[0] + k] = ("symop", "argb", ("sym", "col%d" % k), None)
            o += 1
        if w and dw and which == "framebuf":
            depth[BASE + xs[0] + k] = zexpr(k)
    return {"i": n, "o": o, "colour": colour, "depth": depth}


def scenarios(which, thorough=False):
    """(setting, rels, shades, cw, dw): fragment 0 runs through every (order, shader) combination, the other two get different ones"""
    settings = [NONE, some(ordv("Less")), some(ordv("Equal")), some(ordv("Greater"))] if which == "framebuf" else [NONE, some(ordv("Greater"))]
    out = []
    for st in settings:
        for ri, r0 in enumerate(RELS):
            for s0 in (True, False):
                others = [((RELS[(ri + 1) % 4], not s0), (RELS[(ri + 2) % 4], s0))]
                if thorough:
                    others += [((RELS[(ri + 3) % 4], s0), (r0, not s0)), ((r0, s0), (r0, s0)), ((RELS[(ri + 2) % 4], not s0), (RELS[(ri + 1) % 4], not s0))]
                for (r1, s1), (r2, s2) in others:
                    for cw in (True, False):
                        for dw in ((True, False) if which == "framebuf" else (True,)):
                            out.append((st, (r0, r1, r2), (s0, s1, s2), cw, dw))
    # the ends fail and the interior fragment passes (and the other way round): an early-out on the span ends must not hide it
    if which == "framebuf":
        for st, a, b in ((some(ordv("Greater")), "lt", "gt"), (some(ordv("Less")), "gt", "lt"), (some(ordv("Greater")), "gt", "lt")):
            out.append((st, (a, b, a), (True, True, True), True, True))
    return out


def describe(sc):
    st, rels, shades, cw, dw = sc
    return "depth_test=%s, stored?new=%s, shader=%s, color_write=%s, depth_write=%s" % (
        "None" if st == NONE else "Some(%s)" % st[3][0][2], "/".join(rels), "/".join("Some" if s else "None" for s in shades), cw, dw)


def classify(which, sc, got, want):
    """-> list of (clause, key, message); clause in W1 W1e W2 W3 F1 F2"""
    st, rels, shades, cw, dw = sc
    res = []
    tag = describe(sc)
    flat = [got["i"], got["o"]] + got["colour"] + got["depth"]
    if not got["panic"] and any(v == A.UNKNOWN or v is None for v in flat):
        raise A.Undecided("rasterize leaves a value the interpreter could not determine (%s)" % tag)
    if got["panic"]:
        return [("F2", "panic", "rasterize panics (%s) with %s" % (got["panic"][:80], tag))]
    if got["foreign"]:
        res.append(("W3", "span-mismatch", "fragment %s is depth-tested against the stored depth of another pixel (%s): colour and depth spans are not cut alike"
                    % (got["foreign"][0][1], got["foreign"][0][0])))
    for buf, clause_flag, flag in (("colour", "color_write", cw), ("depth", "depth_write", dw)):
        if which != "framebuf" and buf == "depth":
            continue
        for x in range(NCELL):
            g, w = got[buf][x], want[buf][x]
            if same(g, w):
                continue
            k = x - BASE - X0
            untouched = S.sym(("c%d" if buf == "colour" else "d%d") % x)
            if not (0 <= k < NFRAG):
                res.append(("W3", "outside-span|" + buf, "%s cell (x=%d, y=%d) outside the scanline's row / x range is modified (%s)" % (buf, x % WIDTH, x // WIDTH, tag)))
                continue
            p, sh = passes(which, st, rels[k]), shades[k]
            if g != untouched and not p:
                res.append(("W1", buf, "%s buffer is written for a fragment that fails the depth test (%s)" % (buf, tag)))
            elif g != untouched and not sh:
                res.append(("F1", buf + "|discard", "%s buffer is written although the fragment shader returned None (%s)" % (buf, tag)))
            elif g != untouched and not flag:
                res.append(("F1", buf + "|flag", "%s buffer is written although %s is off (%s)" % (buf, clause_flag, tag)))
            elif g == untouched:
                res.append(("F1", buf + "|not-written", "%s buffer is NOT written for a passing, shaded fragment with %s on (%s)" % (buf, clause_flag, tag)))
            elif buf == "depth":
                res.append(("W2", "value", "the depth stored (%s) is not the depth that was tested (z0 + %d dz) (%s)" % (S.fmt_trace([("Eq", g, 0, True)])[3:-6], k, tag)))
            else:
                res.append(("W3", "wrong-fragment|" + buf, "pixel %d receives %s instead of its own fragment's colour (%s)" % (x, S.fmt_trace([("Eq", g, 0, True)])[3:-6], tag)))
    if got["o"] != want["o"] and not res:
        res.append(("F2", "counter", "Throughput.o is %s where %d fragment(s) had their colour written (%s)" % (got["o"], want["o"], tag)))
    elif got["o"] != want["o"]:
        res.append(("F2", "counter", "Throughput.o is %s, expected %d (%s)" % (got["o"], want["o"], tag)))
    if got["i"] != want["i"]:
        res.append(("F2", "input-count", "Throughput.i is %s, the span holds %d fragment(s) (%s)" % (got["i"], want["i"], tag)))
    return res


def check_target(prog, which, thorough=False):
    """-> (n_scenarios, findings [(clause, key, message)] de-duplicated by (clause, key))"""
    seen, findings = set(), []
    scs = scenarios(which, thorough)
    for sc in scs:
        # a comparison that is not one of the scenario's (stored depth, fragment depth) pairs forks the interpretation; a deviation on a
        # forked path cannot be attributed without knowing that the combination of outcomes is possible: undecided
        paths = S.explore(lambda o, sc=sc: run(prog, which, *sc, fork=o), max_paths=8)
        for trace, got in paths:
            dev = classify(which, sc, got, expected(which, *sc))
            if trace and dev:
                raise A.Undecided("on a path that depends on %s rasterize deviates from the write-on-pass specification (%s); whether that path "
                                  "is possible in this scenario is outside the rule" % (S.fmt_trace(trace)[:160], dev[0][2][:120]))
            for clause, key, msg in dev:
                if (clause, key) not in seen:
                    seen.add((clause, key))
                    findings.append((clause, key, msg))
    # an empty / reversed x range: nothing is touched, nothing panics, i = 0
    for xs in ((3, 3), (3, 1)):
        sc = (NONE, ("gt", "gt", "gt"), (True, True, True), True, True)
        got = run(prog, which, *sc, xs=xs)
        want = expected(which, *sc, xs=xs)
        bad = got["panic"] or got["i"] != 0 or got["o"] != 0 or got["colour"] != want["colour"] or got["depth"] != want["depth"]
        if bad and ("F2", "empty-span") not in seen:
            seen.add(("F2", "empty-span"))
            how = ("panics: " + got["panic"][:80]) if got["panic"] else "is not a no-op (i=%s, o=%s)" % (got["i"], got["o"])
            findings.append(("F2", "empty-span", "a scanline with x range %d..%d (no pixel) %s" % (xs[0], xs[1], how)))
    return len(scs) + 2, findings
