"""Path-sensitive interval analysis of loop-free integer MIR (engine V).

Integers whose value is not known are ranges `("rng", id)`; the range, a non-zero flag and the
refinements made by the branches taken so far live in a per-path store. A comparison the ranges
do not decide yields a lazy boolean; a SwitchInt on it forks the path (replay forking) and refines
the operands on each side; an Assert on it records a POSSIBLE PANIC (kind, place) and continues
on the passing side. A diverging call reached on some path (panic!, unreachable!, failed
debug_assert) is recorded likewise. The result is the set of panic edges that the ranges cannot
exclude, over all paths — a sound over-approximation for functions without loops.
"""
from . import absint as A, symalg as S

TYPE_RANGE = {}
for _n, _b in A.INT_BITS.items():
    if _n.startswith("i"):
        TYPE_RANGE[_n] = (-(1 << (_b - 1)), (1 << (_b - 1)) - 1)
    elif _n.startswith("u"):
        TYPE_RANGE[_n] = (0, (1 << _b) - 1)


class PanicRecord:
    def __init__(self, kind, where, detail, body):
        self.kind, self.where, self.detail, self.body = kind, where, detail, body

    def key(self):
        return "%s|%s" % (self.body.rsplit("::", 2)[-2] + "::" + self.body.rsplit("::", 1)[-1] if "::" in self.body else self.body, self.kind)


class Interp(A.Interp):
    def __init__(self, prog, models=None, prefix=(), fuel=400000):
        m = dict(S.ALG_MODELS)
        m.update(MODELS)
        m.update(models or {})
        super().__init__(prog, models=m, fuel=fuel, max_depth=32)
        self.store = {}
        self.next_id = 0
        self.prefix = list(prefix)
        self.decisions = []
        self.alternatives = []        # decision prefixes still to explore
        self.panics = []
        self.diffs = {}               # (id of a, id of b) -> [ids of ranges computed as a - b]: the one relational fact kept

    # ---------------------------------------------------------------- ranges
    def new_rng(self, lo, hi, nz=False):
        if lo == hi:
            return lo
        self.next_id += 1
        self.store[self.next_id] = [lo, hi, nz or lo > 0 or hi < 0]
        return ("rng", self.next_id)

    def rng(self, v, ty=None):
        """(lo, hi, nonzero) of a value, or None"""
        if isinstance(v, bool):
            return (int(v), int(v), bool(v))
        if isinstance(v, int):
            if ty and ty.startswith("i"):
                b = A.INT_BITS.get(ty, 64)
                if (v >> (b - 1)) & 1:
                    v -= 1 << b
            return (v, v, v != 0)
        if isinstance(v, tuple) and v[0] == "rng":
            lo, hi, nz = self.store[v[1]]
            return (lo, hi, nz)
        return None

    def concrete_index(self, idx):
        """an array indexed by an unknown of small range: one path per value (the bounds check before it has refined the range)"""
        if isinstance(idx, tuple) and idx[0] == "rng":
            lo, hi, _nz = self.store[idx[1]]
            if 0 <= lo <= hi and hi - lo < 16:
                v = lo + self.choose(hi - lo + 1, "index")
                self.store[idx[1]][0] = self.store[idx[1]][1] = v
                self.store[idx[1]][2] = v != 0
                return v
        return idx

    def choose(self, n, what):
        """replay forking: n-way choice"""
        i = len(self.decisions)
        if i < len(self.prefix):
            k = self.prefix[i]
        else:
            k = 0
            for alt in range(1, n):
                self.alternatives.append(tuple(self.decisions) + (alt,))
        self.decisions.append(k)
        return k

    def refine(self, op, a, b, outcome):
        if not outcome:
            op = {"Eq": "Ne", "Ne": "Eq", "Lt": "Ge", "Ge": "Lt", "Gt": "Le", "Le": "Gt"}[op]
        for x, y, o in ((a, b, op), (b, a, {"Lt": "Gt", "Gt": "Lt", "Le": "Ge", "Ge": "Le"}.get(op, op))):
            if not (isinstance(x, tuple) and x[0] == "rng"):
                continue
            ry = self.rng(y)
            if ry is None:
                continue
            st = self.store[x[1]]
            if o == "Eq":
                st[0], st[1] = max(st[0], ry[0]), min(st[1], ry[1])
            elif o == "Ne" and ry[0] == ry[1]:
                c = ry[0]
                if c == st[0]:
                    st[0] += 1
                if c == st[1]:
                    st[1] -= 1
                if c == 0:
                    st[2] = True
            elif o == "Lt":
                st[1] = min(st[1], ry[1] - 1)
            elif o == "Le":
                st[1] = min(st[1], ry[1])
            elif o == "Gt":
                st[0] = max(st[0], ry[0] + 1)
            elif o == "Ge":
                st[0] = max(st[0], ry[0])
            if st[0] > 0 or st[1] < 0:
                st[2] = True
        # a comparison of two unknowns says something about their difference where one was computed (`d = max - min; if max <= min ..`)
        if isinstance(a, tuple) and a[0] == "rng" and isinstance(b, tuple) and b[0] == "rng":
            for (x_, y_), o in (((a[1], b[1]), op), ((b[1], a[1]), {"Lt": "Gt", "Gt": "Lt", "Le": "Ge", "Ge": "Le"}.get(op, op))):
                for did in self.diffs.get((x_, y_), ()):
                    st = self.store[did]
                    if o == "Eq":
                        st[0], st[1] = max(st[0], 0), min(st[1], 0)
                    elif o == "Ne":
                        st[2] = True
                    elif o == "Lt":
                        st[1] = min(st[1], -1)
                    elif o == "Le":
                        st[1] = min(st[1], 0)
                    elif o == "Gt":
                        st[0] = max(st[0], 1)
                    elif o == "Ge":
                        st[0] = max(st[0], 0)
                    if st[0] > 0 or st[1] < 0:
                        st[2] = True

    def decide(self, v):
        """truth value of a (possibly lazy) boolean from the ranges: True / False / None"""
        if isinstance(v, int):
            return bool(v)
        if isinstance(v, tuple) and v[0] == "lazy":
            op, a, b = v[1], v[2], v[3]
            ra, rb = self.rng(a), self.rng(b)
            if ra is None or rb is None:
                return None
            if op == "Eq":
                if ra[0] == ra[1] == rb[0] == rb[1]:
                    return True
                if ra[1] < rb[0] or rb[1] < ra[0] or (rb[0] == rb[1] == 0 and ra[2]) or (ra[0] == ra[1] == 0 and rb[2]):
                    return False
                return None
            if op == "Ne":
                r = self.decide(("lazy", "Eq", a, b))
                return None if r is None else not r
            if op == "Lt":
                return True if ra[1] < rb[0] else False if ra[0] >= rb[1] else None
            if op == "Le":
                return True if ra[1] <= rb[0] else False if ra[0] > rb[1] else None
            if op == "Gt":
                return True if ra[0] > rb[1] else False if ra[1] <= rb[0] else None
            if op == "Ge":
                return True if ra[0] >= rb[1] else False if ra[1] < rb[0] else None
        if isinstance(v, tuple) and v[0] == "land":
            x, y = self.decide(v[1]), self.decide(v[2])
            if x is False or y is False:
                return False
            if x is True and y is True:
                return True
            return None
        if isinstance(v, tuple) and v[0] == "lnot":
            x = self.decide(v[1])
            return None if x is None else not x
        return None

    def assume(self, v, outcome):
        if isinstance(v, tuple) and v[0] == "lazy":
            self.refine(v[1], v[2], v[3], outcome)
        elif isinstance(v, tuple) and v[0] == "lnot":
            self.assume(v[1], not outcome)
        elif isinstance(v, tuple) and v[0] == "land" and outcome:
            self.assume(v[1], True)
            self.assume(v[2], True)

    # ---------------------------------------------------------------- arithmetic
    def binop(self, op, a, b, ty):
        base = op.replace("WithOverflow", "").replace("Unchecked", "")
        involved = any(isinstance(x, tuple) and x[0] in ("rng", "lazy", "land", "lnot") for x in (a, b))
        if not involved or ty not in TYPE_RANGE and ty != "bool":
            return super().binop(op, a, b, ty)
        if ty == "bool":
            if base == "BitAnd":
                return ("land", a, b)
            if base == "Eq" and b == 0:
                return ("lnot", a)
            return A.UNKNOWN
        ra, rb = self.rng(a, ty), self.rng(b, ty)
        if ra is None or rb is None:
            return A.UNKNOWN
        if base in ("Eq", "Ne", "Lt", "Le", "Gt", "Ge"):
            lz = ("lazy", base, a, b)
            d = self.decide(lz)
            return int(d) if d is not None else lz
        tlo, thi = TYPE_RANGE[ty]
        (al, ah, _anz), (bl, bh, bnz) = ra, rb
        if base == "Add":
            lo, hi = al + bl, ah + bh
        elif base == "Sub":
            lo, hi = al - bh, ah - bl
        elif base == "Mul":
            c = [al * bl, al * bh, ah * bl, ah * bh]
            lo, hi = min(c), max(c)
        elif base in ("Div", "Rem"):
            ds = [d for d in (bl, bh, -1, 1) if bl <= d <= bh and d != 0]
            if not ds:
                return self.new_rng(tlo, thi)
            if base == "Div":
                c = [int(x / d) for x in (al, ah) for d in ds]
                lo, hi = min(c), max(c)
                if al <= 0 <= ah:
                    lo, hi = min(lo, 0), max(hi, 0)
            else:
                m = max(abs(bl), abs(bh)) - 1
                lo, hi = (0 if al >= 0 else -min(m, -al)), (0 if ah <= 0 else min(m, ah))
        elif base == "Shr" and isinstance(b, int):
            lo, hi = al >> b, ah >> b
        elif base == "Shl" and isinstance(b, int):
            lo, hi = al << b, ah << b
        elif base == "BitAnd" and al >= 0 and bl >= 0:
            lo, hi = 0, min(ah, bh)
        else:
            lo, hi = tlo, thi
        def remember(v):
            # an exact (non-wrapping) difference of two unknowns
            if base == "Sub" and isinstance(v, tuple) and v[0] == "rng" and all(isinstance(x, tuple) and x[0] == "rng" for x in (a, b)):
                self.diffs.setdefault((a[1], b[1]), []).append(v[1])
            return v
        if "WithOverflow" in op:
            if tlo <= lo and hi <= thi:
                return ("tuple", [remember(self.new_rng(lo, hi)), 0])
            return ("tuple", [self.new_rng(max(lo, tlo), min(hi, thi)), ("ovf", base, lo, hi)])
        if lo < tlo or hi > thi:
            lo, hi = tlo, thi            # wrapping in release; the checked form above is what debug builds run
            return self.new_rng(lo, hi)
        return remember(self.new_rng(lo, hi))

    def rvalue(self, fr, rv, lhs_ty=None):
        if rv["k"] == "Cast":
            v = self.operand(fr, rv["a"])
            if isinstance(v, tuple) and v[0] == "rng" and rv["ck"] == "IntToInt":
                lo, hi, _ = self.rng(v)
                tlo, thi = TYPE_RANGE.get(rv["to"], (None, None))
                if tlo is not None and tlo <= lo and hi <= thi:
                    return v
                return self.new_rng(tlo, thi) if tlo is not None else A.UNKNOWN
            if isinstance(v, tuple) and v[0] in ("lazy", "land", "lnot") and rv["ck"] in ("IntToInt", "BoolToInt"):
                return self.new_rng(0, 1)
        if rv["k"] == "UnaryOp" and rv["op"] == "Not":
            v = self.operand(fr, rv["a"])
            if isinstance(v, tuple) and v[0] in ("lazy", "land", "lnot"):
                return ("lnot", v)
        if rv["k"] == "UnaryOp" and rv["op"] == "Neg":
            v = self.operand(fr, rv["a"])
            if isinstance(v, tuple) and v[0] == "rng":
                lo, hi, _ = self.rng(v)
                return self.new_rng(-hi, -lo)
        return super().rvalue(fr, rv, lhs_ty)

    def record(self, kind, where, detail, body):
        self.panics.append(PanicRecord(kind, where, detail, body))

    # ---------------------------------------------------------------- control flow
    def run(self, fr, depth):
        body = fr.body
        bb = 0
        while True:
            self.fuel -= 1
            if self.fuel < 0:
                raise A.Undecided("fuel exhausted in %s" % body.path)
            blk = body.blocks[bb]
            for s in blk["stmts"]:
                if s["k"] == "Assign":
                    lty = body.locals[s["lhs"]["l"]] if not s["lhs"]["p"] else None
                    self.write_place(fr, s["lhs"], self.rvalue(fr, s["rv"], lty))
            t = blk["term"]
            k = t["k"]
            if k == "Goto":
                bb = t["t"]
            elif k == "Return":
                return fr.locals.get(0, ("tuple", []))
            elif k == "SwitchInt":
                v = self.operand(fr, t["discr"])
                if isinstance(v, tuple) and v[0] in ("lazy", "land", "lnot"):
                    d = self.decide(v)
                    if d is None:
                        d = bool(self.choose(2, "branch at %s" % body.where(bb, None)) == 0)
                        self.assume(v, d)
                    v = int(d)
                if isinstance(v, tuple) and v[0] == "rng":
                    lo, hi, _nz = self.rng(v)
                    listed = [(val, tgt) for val, tgt in t["targets"]]
                    feas = [(val, tgt) for val, tgt in listed if lo <= val <= hi]
                    others = (hi - lo + 1) > len(feas)
                    opts = feas + ([(None, t["otherwise"])] if others else [])
                    kx = self.choose(len(opts), "switch") if len(opts) > 1 else 0
                    val, nxt = opts[kx]
                    if val is not None:
                        st = self.store[v[1]]
                        st[0] = st[1] = val
                        st[2] = val != 0
                    else:
                        for lv, _t in listed:
                            self.refine("Ne", v, lv, True)
                    bb = nxt
                    continue
                if not isinstance(v, int):
                    raise A.Undecided("branch on undecided value %r at %s" % (v, body.where(bb, None)))
                bits = A.INT_BITS.get(t["dty"], 128)
                if bits < 128:
                    v &= (1 << bits) - 1
                nxt = t["otherwise"]
                for val, tgt in t["targets"]:
                    if val == v:
                        nxt = tgt
                        break
                bb = nxt
            elif k == "Assert":
                c = self.operand(fr, t["cond"])
                want = bool(t["expected"])
                if isinstance(c, tuple) and c[0] == "ovf":
                    self.record("assert:" + str(t["ak"]), body.where(bb, None), "the exact result ranges over [%d, %d]" % (c[2], c[3]), body.path)
                elif isinstance(c, tuple) and c[0] in ("lazy", "land", "lnot"):
                    d = self.decide(c)
                    if d is None:
                        self.record("assert:" + str(t["ak"]), body.where(bb, None), "not excluded by the ranges on this path", body.path)
                        self.assume(c, want)
                    elif d != want:
                        self.record("assert:" + str(t["ak"]), body.where(bb, None), "fails on every input reaching it", body.path)
                        raise A.Panic("assert fails")
                elif isinstance(c, int) and bool(c) != want:
                    self.record("assert:" + str(t["ak"]), body.where(bb, None), "fails on every input reaching it", body.path)
                    raise A.Panic("assert fails")
                elif not isinstance(c, int):
                    self.record("assert:" + str(t["ak"]), body.where(bb, None), "condition not tracked", body.path)
                bb = t["t"]
            elif k == "Drop":
                bb = t["t"]
            elif k == "Call":
                args = [self.operand(fr, a) for a in t["args"]]
                res = self.do_call(fr, t, args, depth)
                self.write_place(fr, t["dest"], res)
                if t["t"] is None:
                    c = t.get("callee") or {}
                    self.record("diverge:" + c.get("path", "?").rsplit("::", 1)[-1], body.where(bb, None), "reachable with the ranges of this path", body.path)
                    raise A.Panic("diverging call")
                bb = t["t"]
            elif k == "Unreachable":
                raise A.Undecided("reached Unreachable at %s" % body.where(bb, None))
            else:
                raise A.Undecided("terminator %s at %s" % (k, body.where(bb, None)))


# ---------------------------------------------------------------- models of integer std functions on ranges

def _r(it, v):
    return it.rng(A.deref_all(it, v))


def m_minmax(which):
    def f(it, args, callee, depth):
        a, b = _r(it, args[0]), _r(it, args[1])
        if a is None or b is None:
            return NotImplemented
        if which == "max":
            return it.new_rng(max(a[0], b[0]), max(a[1], b[1]))
        return it.new_rng(min(a[0], b[0]), min(a[1], b[1]))
    return f


def m_clamp(it, args, callee, depth):
    a, lo, hi = _r(it, args[0]), _r(it, args[1]), _r(it, args[2])
    if None in (a, lo, hi):
        return NotImplemented
    if lo[0] > hi[1]:
        it.record("std:clamp (min > max)", "?", "bounds", "?")
    return it.new_rng(min(max(a[0], lo[0]), hi[1]), max(min(a[1], hi[1]), lo[0]))


def m_abs(it, args, callee, depth):
    a = _r(it, args[0])
    if a is None:
        return NotImplemented
    ty = ((callee or {}).get("path", "").split("<impl ")[-1].split(">")[0]) or "i32"
    tlo = TYPE_RANGE.get(ty, TYPE_RANGE["i32"])[0]
    if a[0] <= tlo:
        it.record("std:abs (argument is MIN)", "?", "argument range reaches the minimum of %s" % ty, "?")
    lo = 0 if a[0] <= 0 <= a[1] else min(abs(a[0]), abs(a[1]))
    return it.new_rng(lo, max(abs(a[0]), abs(a[1])))


def m_rem_euclid(it, args, callee, depth):
    a, b = _r(it, args[0]), _r(it, args[1])
    if a is None or b is None:
        return NotImplemented
    if b[0] <= 0 <= b[1] and not b[2]:
        it.record("std:rem_euclid (divisor is 0)", "?", "divisor range [%d, %d]" % (b[0], b[1]), "?")
    return it.new_rng(0, max(abs(b[0]), abs(b[1])) - 1)


def m_from(it, args, callee, depth):
    v = A.deref_all(it, args[0])
    if isinstance(v, (int,)) or (isinstance(v, tuple) and v[0] == "rng"):
        return v
    return NotImplemented


def m_range_contains(it, args, callee, depth):
    """Range / RangeInclusive ::contains(&x) on integers = lo <= x && x < hi (<= hi)"""
    r, x = A.deref_all(it, args[0]), A.deref_all(it, args[1])
    if not (isinstance(r, tuple) and r[0] == "adt" and "ops::range::Range" in r[1] and len(r[3]) >= 2):
        return NotImplemented
    kind = r[1].rsplit("::", 1)[-1]
    if kind not in ("Range", "RangeInclusive"):
        return NotImplemented
    lo, hi = A.deref_all(it, r[3][0]), A.deref_all(it, r[3][1])
    ty = "i32"
    for t_ in (((callee or {}).get("args") or []) + [((callee or {}).get("full") or "")]):
        for cand in TYPE_RANGE:
            if cand in str(t_):
                ty = cand
    a = it.binop("Le", lo, x, ty)
    b = it.binop("Lt" if kind == "Range" else "Le", x, hi, ty)
    if a == 0 or b == 0:
        return 0
    if a == 1:
        return b
    if b == 1:
        return a
    return ("land", a, b)


MODELS = {
    "ops::range::Range::<Idx>::contains": m_range_contains, "ops::range::RangeInclusive::<Idx>::contains": m_range_contains,
    "core::cmp::Ord::max": m_minmax("max"), "core::cmp::Ord::min": m_minmax("min"), "core::cmp::Ord::clamp": m_clamp,
    "$>::abs": m_abs, "$>::rem_euclid": m_rem_euclid,
    "core::convert::From::from": m_from, "core::convert::Into::into": m_from,
}


def analyze(prog, body, make_args, models=None, max_paths=4096):
    """Explore every path of `body`; returns (number of paths, {key: PanicRecord}) of the panic edges the ranges
    cannot exclude. make_args(interp) builds fresh arguments (ranges live in the interpreter's store)."""
    pending = [()]
    found = {}
    n = 0
    while pending:
        prefix = pending.pop()
        n += 1
        if n > max_paths:
            raise A.Undecided("more than %d paths" % max_paths)
        it = Interp(prog, models=models, prefix=prefix)
        try:
            it.call_body(body, make_args(it))
        except A.Panic:
            pass
        for p in it.panics:
            found.setdefault((p.body, p.kind, p.where), p)
        pending.extend(it.alternatives)
    return n, found
