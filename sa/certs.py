"""Engine N — non-negativity certificates for polynomial inequalities over
non-negative integers.

To show P(x1..xn) >= 0 for all integers xi >= lb_i, substitute xi = yi + lb_i
and check that every coefficient of the expanded polynomial is >= 0 (then P >= 0
for all yi >= 0). Sufficient, not necessary: failure means "not proved", and the
corresponding panic edge stays undischarged.
"""
from fractions import Fraction

from . import poly as P


def shift(p, lbs):
    """substitute x = y + lb for every symbol with a lower bound"""
    out = {}
    for mono, c in p.items():
        # product over symbols of (y + lb)
        terms = {(): Fraction(c)}
        for sym in mono:
            lb = lbs.get(sym, 0)
            nt = {}
            for m, cc in terms.items():
                m1 = tuple(sorted(m + (sym,)))
                nt[m1] = nt.get(m1, 0) + cc
                if lb:
                    nt[m] = nt.get(m, 0) + cc * lb
            terms = nt
        for m, cc in terms.items():
            out[m] = out.get(m, 0) + cc
    return {m: c for m, c in out.items() if c != 0}


def nonneg(p, lbs):
    q = shift(p, lbs)
    return all(c >= 0 for c in q.values())


def substitute(p, subst):
    """subst: sym -> polynomial"""
    out = {}
    for mono, c in p.items():
        cur = {(): Fraction(c)}
        for sym in mono:
            rep = subst.get(sym, {(sym,): Fraction(1)})
            cur = P.pmul(cur, rep)
        out = P.padd(out, cur)
    return out


def atom_ineq(op, a, b, taken):
    """Returns (poly, k) meaning `poly >= k` holds when the comparison op(a,b) evaluates to `taken`."""
    neg = {"Le": "Gt", "Lt": "Ge", "Ge": "Lt", "Gt": "Le", "Eq": "Ne", "Ne": "Eq"}
    if not taken:
        op = neg[op]
    d_ab = P.padd(a, {m: -c for m, c in b.items()})
    d_ba = {m: -c for m, c in d_ab.items()}
    if op == "Le":
        return d_ba, 0      # b - a >= 0
    if op == "Lt":
        return d_ba, 1
    if op == "Ge":
        return d_ab, 0
    if op == "Gt":
        return d_ab, 1
    return None             # Eq / Ne handled by the caller for bounds only


def bounds_from_atoms(atoms):
    """Simple variable lower bounds: x >= k / x > k / x != 0 (unsigned)."""
    lbs = {}
    for (op, a, b, taken) in atoms:
        ineq = atom_ineq(op, a, b, taken)
        if ineq is None:
            # x != 0  =>  x >= 1
            neg = (op == "Eq" and not taken) or (op == "Ne" and taken)
            if neg:
                for x, y in ((a, b), (b, a)):
                    if len(x) == 1 and list(x.values()) == [1] and len(list(x)[0]) == 1 and (y == {} or y == {(): 0}):
                        s = list(x)[0][0]
                        lbs[s] = max(lbs.get(s, 0), 1)
            continue
        p, k = ineq
        # p = x - c  >= k   =>  x >= c + k
        syms = [m for m in p if m != ()]
        if len(syms) == 1 and len(syms[0]) == 1 and p[syms[0]] == 1:
            c = -p.get((), 0)
            lb = c + k
            if lb == int(lb):
                lbs[syms[0][0]] = max(lbs.get(syms[0][0], 0), int(lb))
    return lbs


def refute(atoms, extra_lbs=None):
    """atoms: [(op, polyA, polyB, taken)] that all hold at a program point. Try to show
    the conjunction is unsatisfiable over non-negative integers. Returns an
    explanation string or None."""
    lbs = bounds_from_atoms(atoms)
    for s, v in (extra_lbs or {}).items():
        lbs[s] = max(lbs.get(s, 0), v)
    for (op, a, b, taken) in atoms:
        ineq = atom_ineq(op, a, b, taken)
        if ineq is None:
            continue
        p, k = ineq
        # holds: p >= k.  Refuted if  (k - 1) - p >= 0 is certified, i.e. p <= k-1 always.
        q = P.padd({(): k - 1} if k - 1 != 0 else {}, {m: -c for m, c in p.items()})
        if nonneg(q, lbs):
            return "%s(%s, %s)=%s contradicts the bounds %s" % (op, a, b, taken, lbs)
    return None
