#!/bin/bash
# tools/mkeqmut.sh <mutant-name> <equiv-id> <sed-expr> <file>  — a breaking change made on top of a behaviour-preserving refactoring:
# applies equiv/<id>/patch.diff to a scratch copy of /repo, runs sed on <file>, and stores the combined diff as mutants/<name>.diff
set -eu
T=$(mktemp -d /tmp/mk.XXXX); trap 'rm -rf "$T"' EXIT
rsync -a --exclude target --exclude .git /repo/ $T/a/; cp -r $T/a $T/b
(cd $T/b && patch -p1 -s < /verif/equiv/$2/patch.diff && cp $4 $T/before && sed -i "$3" $4 && ! cmp -s $4 $T/before) || { echo "sed changed nothing"; exit 1; }
(cd $T && diff -ru a b > /verif/mutants/$1.diff) || true
grep -c "^[-+]" /verif/mutants/$1.diff
