#!/bin/bash
# tools/eqrun.sh [ID...] — run checks (default: all claimed) against every pre-dumped equivalence patch under /tmp/eqfacts; print non-silent ones
IDS="${@:-C01 C03 C04 C05 C06 C07 C08 C09 C11 C12 C13 C14 C15 C16 C17 C18 C19 C20}"
for d in /tmp/eqfacts/*; do
  n=$(basename $d)
  for id in $IDS; do
    out=$(VERIF_DEV_FACTS=$d VERIF_REPO=$d/repo VERIF_EVID_DIR=$d/evid VERIF_NO_SELFTEST=1 /verif/check $id 2>&1)
    rc=$?
    if [ $rc -ne 0 ]; then echo "== $n $id exit=$rc"; echo "$out" | grep -E "^\s+\[C|INFRA" | head -${EQ_LINES:-2} | cut -c1-${EQ_COLS:-260}; fi
  done
done
