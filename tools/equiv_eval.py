#!/usr/bin/env python3
"""tools/equiv_eval.py <dir>... — evaluate behaviour-preserving refactorings (patch.diff + meta.json): the suite must stay green and
EVERY registered check must stay silent (exit 0). Prints one line per patch; details in <dir>/eval.json."""
import json, os, subprocess, sys
from concurrent.futures import ThreadPoolExecutor
import shutil, threading

HERE = os.path.dirname(os.path.dirname(os.path.abspath(__file__)))
WORK = set()


def one(d):
    d = os.path.abspath(d)
    work = "/tmp/eqwork-%d" % (threading.get_ident() % 100000)
    WORK.add(work)
    r = subprocess.run([os.path.join(HERE, "tools", "seed_eval.py"), d, "ALL"], stdout=subprocess.PIPE, stderr=subprocess.PIPE, text=True, env=dict(os.environ, SEED_WORK=work))
    try:
        ev = json.loads(r.stdout)
    except Exception:
        return d, "EVAL-ERROR " + r.stderr[-300:]
    json.dump(ev, open(os.path.join(d, "eval.json"), "w"), indent=1)
    bad = {k: v[0] for k, v in ev.get("checks", {}).items() if v[0] != 0}
    return d, "applies=%s suite=%s non-silent=%s" % (ev.get("patch_applies"), ev.get("suite_with_patch"), bad)


try:
    with ThreadPoolExecutor(max_workers=5) as ex:
        for d, msg in ex.map(one, sys.argv[1:]):
            print(d, msg, flush=True)
finally:
    for w in WORK:
        shutil.rmtree(w, ignore_errors=True)
