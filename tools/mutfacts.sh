#!/bin/bash
# tools/mutfacts.sh <patch.diff> <out-dir> [cfg...] — scratch copy of /repo with the patch applied + fact dump(s) (default: ws) for rule development
set -u
P=$(readlink -f "$1"); O="$2"; shift 2
rm -rf "$O"; mkdir -p "$O"
rsync -a --exclude target --exclude .git /repo/ "$O/repo/"
( cd "$O/repo" && patch -p1 -s < "$P" ) || { echo "PATCH-FAILED $P"; exit 3; }
for c in ${@:-ws}; do VERIF_REPO="$O/repo" /verif/sa/dump.sh $c "$O/facts-$c" > /dev/null 2>&1 & done
wait
