#!/bin/bash
# tools/regress.sh — every mutants/*.diff against the check named by its prefix (quick tier), in parallel;
# prints one line per fixture; "equiv" fixtures must be silent (0), all others reported (1).
cd /verif
ls mutants/*.diff | xargs -P ${JOBS:-8} -I{} bash -c '
  m={}; id=$(basename $m | cut -d_ -f1)
  rc=$(tools/mutrun.sh $m $id 2>&1 | grep -E "== $id exit=" | sed "s/.*exit=//")
  case $m in *equiv*) want=0;; *) want=1;; esac
  [ "$rc" = "$want" ] && echo "ok   $m ($rc)" || echo "BAD  $m got=$rc want=$want"
' | sort
