#!/bin/bash
# tools/mutrun.sh <patch.diff> [--test] <ID>...   — apply a patch to a scratch copy of /repo
# (outside /repo and /verif), run the given checks against it, delete the copy.
set -u
PATCH=$(readlink -f "$1"); shift
TEST=0
if [ "${1:-}" = "--test" ]; then TEST=1; shift; fi
TMP=$(mktemp -d /tmp/mutant.XXXXXX)
trap 'rm -rf "$TMP"' EXIT
rsync -a --exclude target --exclude .git /repo/ "$TMP/repo/"
( cd "$TMP/repo" && patch -p1 -s < "$PATCH" ) || { echo "PATCH-FAILED $PATCH"; exit 3; }
if [ $TEST = 1 ]; then
  ( cd "$TMP/repo" && CARGO_TARGET_DIR="$TMP/tgt" cargo test --workspace --offline -q 2>&1 | grep -E "^test result|FAILED|error" | sort | uniq -c )
fi
RC=0
for id in "$@"; do
  VERIF_REPO="$TMP/repo" VERIF_EVID_DIR="$TMP/evid" /verif/check "$id" ${MUT_TIER:+--tier $MUT_TIER}
  rc=$?
  echo "== $id exit=$rc"
  [ $rc -ne 0 ] && RC=$rc
done
exit $RC
