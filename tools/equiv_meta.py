#!/usr/bin/env python3
"""tools/equiv_meta.py — record in equiv/<id>/meta.json which checks replay that behaviour-preserving refactoring in their thorough
self-test (expected: silent, exit 0): every claimed property whose anchor files the patch touches (C10, whose replay compiles the
witness crates, only its own two)."""
import glob
import json
import os
import re

HERE = os.path.dirname(os.path.dirname(os.path.abspath(__file__)))
props = {}
for l in open(os.path.join(HERE, "properties.jsonl")):
    d = json.loads(l)
    props[d["id"]] = set(d["anchors"]["files"])
claimed = {p["property_id"] for p in json.load(open(os.path.join(HERE, "MANIFEST.json")))["checks"]}
for e in sorted(glob.glob(os.path.join(HERE, "equiv", "*", "patch.diff"))):
    d = os.path.dirname(e)
    eid = os.path.basename(d)
    touched = set(re.findall(r"^\+\+\+ b/(\S+)", open(e).read(), re.M))
    checks = {}
    for pid, files in sorted(props.items()):
        if pid not in claimed:
            continue
        if pid == "C10" and not eid.startswith("C10-"):
            continue
        if touched & files or eid.startswith(pid + "-"):
            checks[pid] = 0
    mp = os.path.join(d, "meta.json")
    m = json.load(open(mp))
    m["touches"] = sorted(touched)
    m["checks"] = checks
    json.dump(m, open(mp, "w"), indent=1)
    print(eid, " ".join(sorted(checks)))
