#!/usr/bin/env python3
"""tools/seed_eval.py <seed_dir> [ID ...] — confirm an independently written breaking change and
run the checks against it. seed_dir holds patch.diff, demo *.rs, meta.json."""
import glob, json, os, shutil, subprocess, sys, tempfile

seed = os.path.abspath(sys.argv[1])
ids = sys.argv[2:]
meta = json.load(open(os.path.join(seed, "meta.json")))
prop = meta.get("property")
# SEED_WORK=<dir>: a persistent scratch directory (repo copy + cargo target) reused across seeds by the caller (incremental builds);
# the caller removes it. Without it a fresh directory is made and removed here.
persistent = os.environ.get("SEED_WORK")
tmp = persistent or tempfile.mkdtemp(prefix="seedeval-", dir="/tmp")
os.makedirs(tmp, exist_ok=True)
res = {"seed": seed, "property": prop}
try:
    repo = os.path.join(tmp, "repo")
    rs = subprocess.run(["rsync", "-ai", "--checksum", "--delete", "--exclude", "target", "--exclude", ".git", "/repo/", repo + "/"], check=True, stdout=subprocess.PIPE, text=True)
    # files restored to their pristine content keep the source's OLD mtime: cargo would take the previous (patched) build for fresh
    for line in rs.stdout.splitlines():
        if line.startswith(">f"):
            fp = os.path.join(repo, line.split(" ", 1)[1].strip())
            if os.path.exists(fp):
                os.utime(fp, None)
    for stale in glob.glob(os.path.join(tmp, "facts-*")) + [os.path.join(tmp, "evid")]:
        shutil.rmtree(stale, ignore_errors=True)
    env = dict(os.environ, CARGO_TARGET_DIR=os.path.join(tmp, "tgt"), CARGO_NET_OFFLINE="true")
    demos = [f for f in glob.glob(os.path.join(seed, "*.rs"))]

    def place_demos():
        names = []
        for d in demos:
            src = open(d).read()
            crate = "geom" if "retrofire_geom" in src else "core"
            os.makedirs(os.path.join(repo, crate, "tests"), exist_ok=True)
            shutil.copy(d, os.path.join(repo, crate, "tests", os.path.basename(d)))
            names.append((crate, os.path.basename(d)[:-3]))
        return names

    def run_demo(names):
        out = {}
        for crate, n in names:
            feats = ["-F", "std"]
            # a seed that only manifests with another float back-end says so in its RUN.md
            try:
                import re
                run_md = open(os.path.join(seed, "RUN.md")).read()
                cmds = [l for l in run_md.splitlines() if l.strip().startswith("cargo test") and "--test" in l]
                alt = [m_.group(1) for l in cmds for m_ in [re.search(r"--no-default-features\s+--features[ =]+(libm|mm)", l)] if m_]
                if alt and crate == "core" and not any(re.search(r"--features[ =]+std", l) for l in cmds):
                    feats = ["--no-default-features", "-F", alt[0]]
                elif cmds and crate == "core" and "--features" not in cmds[0] and " -F" not in cmds[0] and "FAILS" in cmds[0]:
                    # the demonstration is stated for the plain no_std build (first command: no features, marked FAILS)
                    feats = []
            except OSError:
                pass
            r = subprocess.run(["cargo", "test", "--offline", "-q", "-p", "retrofire-" + crate, "--test", n] + feats,
                               cwd=repo, env=env, stdout=subprocess.PIPE, stderr=subprocess.STDOUT, text=True)
            tail = [l for l in r.stdout.splitlines() if l.startswith("test result") or "error" in l.lower()][-3:]
            out[n] = (r.returncode, tail)
        return out

    def suite():
        r = subprocess.run(["cargo", "test", "--workspace", "--offline", "-q"], cwd=repo, env=env, stdout=subprocess.PIPE, stderr=subprocess.STDOUT, text=True)
        lines = [l for l in r.stdout.splitlines() if l.startswith("test result")]
        passed = sum(int(l.split(" passed")[0].split()[-1]) for l in lines)
        failed = sum(int(l.split(" failed")[0].split()[-1]) for l in lines)
        return r.returncode, passed, failed
    # without patch: demo must pass
    names = place_demos()
    res["demo_without_patch"] = run_demo(names)
    for crate, n in names:
        os.remove(os.path.join(repo, crate, "tests", n + ".rs"))
    r = subprocess.run(["git", "apply", "--whitespace=nowarn", os.path.join(seed, "patch.diff")], cwd=repo, stdout=subprocess.PIPE, stderr=subprocess.STDOUT, text=True)
    if r.returncode != 0:
        r = subprocess.run(["patch", "-p1", "-s", "-i", os.path.join(seed, "patch.diff")], cwd=repo, stdout=subprocess.PIPE, stderr=subprocess.STDOUT, text=True)
    res["patch_applies"] = r.returncode == 0
    if r.returncode != 0:
        res["patch_error"] = r.stdout[-400:]
    else:
        res["suite_with_patch"] = suite()
        names = place_demos()
        res["demo_with_patch"] = run_demo(names)
        for crate, n in names:
            os.remove(os.path.join(repo, crate, "tests", n + ".rs"))
        checks = {}
        if ids == ["ALL"]:
            ids = sorted({c["property_id"] for c in json.load(open("/verif/MANIFEST.json"))["checks"]})
        e = dict(os.environ, VERIF_REPO=repo, VERIF_EVID_DIR=os.path.join(tmp, "evid"), VERIF_NO_SELFTEST="1")
        e.pop("VERIF_DEV_FACTS", None)
        # one dump of every config shared by all checks of this seed
        procs = [subprocess.Popen(["/verif/sa/dump.sh", cfg, os.path.join(tmp, "facts-" + cfg)], env=e, stdout=subprocess.DEVNULL, stderr=subprocess.DEVNULL)
                 for cfg in ("ws", "std", "libm", "mm", "none", "mm-rel", "none-rel", "libm-rel", "std-rel")]
        for pr in procs:
            pr.wait()
        e["VERIF_DEV_FACTS"] = tmp
        for i in (ids or [prop]):
            c = subprocess.run(["/verif/check", i, "--tier", "quick"], env=e, stdout=subprocess.PIPE, stderr=subprocess.STDOUT, text=True)
            checks[i] = (c.returncode, [l[:300] for l in c.stdout.splitlines() if ("key=" in l and not l.startswith("KNOWN-FINDING")) or "INFRA" in l or "VIOLATION" in l][:6])
        res["checks"] = checks
    print(json.dumps(res, indent=1))
finally:
    if not persistent:
        shutil.rmtree(tmp, ignore_errors=True)
