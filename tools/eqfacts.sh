#!/bin/bash
# tools/eqfacts.sh <patch-dir> <out-dir> — scratch copy of /repo with the patch applied + fact dumps of every configuration (development aid)
set -u
P=$(readlink -f "$1"); O="$2"
rm -rf "$O"; mkdir -p "$O"
rsync -a --exclude target --exclude .git /repo/ "$O/repo/"
( cd "$O/repo" && patch -p1 -s < "$P/patch.diff" ) || { echo "PATCH-FAILED $P"; exit 3; }
for c in ws std libm mm none mm-rel none-rel libm-rel std-rel; do VERIF_REPO="$O/repo" /verif/sa/dump.sh $c "$O/facts-$c" & done
wait
