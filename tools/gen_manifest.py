#!/usr/bin/env python3
"""Regenerates /verif/MANIFEST.json from the table below (kept valid at all times)."""
import json, os

V = os.path.dirname(os.path.dirname(os.path.abspath(__file__)))

CHECKS = {
    "C06": dict(cat="other", technique="MIR dominance/control-dependence + provenance rules; finite-domain abstract interpretation of comparison logic",
        text="Decides the write-on-pass mechanism that order independence rests on: every colour/depth write in Framebuf::rasterize is edge-dominated by the passing edge of the depth test; the value tested is the value stored into the very cell that was read; colour and depth spans are cut identically; Context::depth_test and the depth_sort comparator are evaluated abstractly over the complete finite set of float orderings; the sort is applied to the clip output under Some(depth_sort); render() touches the target only through Target::rasterize. A necessary-condition check on every path, not image equality.",
        note="Trusted: rustc MIR construction at -Zmir-opt-level=0, the fact serialiser, documented semantics of partial_cmp/total_cmp/Option::map_or. Not decided: numeric depth values, equality of images over permutations.",
        ref="§3 C06"),
    "C07": dict(cat="other", technique="MIR control-dependence and reachability rules; abstract interpretation of Stats::add_assign with symbolic counters",
        text="Decides, for both Target impls and render(): each buffer write is control-dependent on its own flag and on the shader's Some result, the two masks are independent, a set flag cannot be skipped; Throughput.o is incremented exactly where colour is written, Throughput.i is the length of the span cut; cull polarity by reachability of tri_fill per FaceCull arm with the is_backface outcome fixed; statistics counted exactly for triangles reaching tri_fill, every rasterize result accumulated, stats merged once on every return; Stats += Stats adds every counter (symbolic evaluation).",
        note="Trusted: rustc MIR construction, fact serialiser. Not decided: sign convention inside is_backface, image comparisons between vertex orders.",
        ref="§3 C07"),
    "C10": dict(cat="proof", technique="compile-fail witness corpus decided by rustc's type checker (misuse/twin pairs against the working tree's rmeta)",
        text="Every misuse class x API entry point named by the property has a minimal witness program that must be rejected by the type checker while its twin (differing only in the offending tag/argument or an explicit conversion) compiles; tag-generic witnesses extend each operator class from two named tags to any two distinct tags. Obligations = pairs x feature configurations; all must be discharged.",
        note="Trusted: rustc's type checker; the corpus (213 pairs) being representative of the misuse classes the property names.",
        ref="§3 C10"),
}

CHECKS["C19"] = dict(cat="proof", technique="GF(2)-linear abstract interpretation of the step function's MIR + exact bit-matrix algebra; dominance/provenance/bit-range rules for the distributions",
    text="Proof for the algebraic core: the state update of Xorshift64::next_bits is interpreted in the GF(2)-linear fragment into a 64x64 bit matrix T read off the code; rank 64 (bijection, 0 is the only fixed point so a non-zero seed never reaches 0), T^(2^64-1)=I and T^((2^64-1)/p)!=I for all seven prime factors, with the factorisation and ord_641(2)=64 re-derived, plus an independent minimal-polynomial (Berlekamp-Massey) irreducibility/primitivity cross-check => one cycle through all 2^64-1 non-zero states. Structural obligations: seed!=0 dominates construction; the float sample's bit pattern lies in [0x3F800000,0x3FFFFFFF] consuming exactly 23 bits of one draw and is mapped affinely (polynomial identity; a non-affine form is refuted by a witness range/unit value that leaves [start, end], else the rule answers 'cannot decide'); composite distributions draw in order from the same generator; rejection samplers return only the accepted vector; Bernoulli is a strict < against a Uniform(0..1) sample.",
    note="Trusted: rustc MIR construction, fact serialiser, Python integer arithmetic, IEEE-754 bit layout. Not decided: rounding at the top of an offset float range, integer-range arithmetic, unit length of normalised samples.",
    ref="§3 C19")

CHECKS["C03"] = dict(cat="other", technique="constant-table rules on rustc-evaluated PLANES; finite-domain abstract interpretation of outcode/is_inside/status; MIR reachability/must-pass/provenance + polynomial-identity rules",
    text="Decides: the frustum plane table is exactly the six half-spaces with distinct one-bit outcodes; ClipPlane::outcode/is_inside agree with it (abstract interpretation, the signed distance being the only symbol); ClipVert::new is the sole constructor and caches outcode(&pos) of the stored position; view_frustum::outcode evaluated on a symbolic point over all 64 combinations of its comparisons equals the sum of the bits of exactly the planes with signed distance > 0 (a deviating combination counts only if a grid point realises it); status() evaluated exhaustively on a two-plane outcode domain and generalised by its folds being bitwise-only; a Visible triangle is pushed unchanged exactly once with no clipping reachable, a Hidden one emits nothing; both scratch polygons are cleared on every path to the next triangle (batch independence); position and attribute are interpolated between the same endpoints in the same order with the same t, and t*(d1-d0) = -d0 as a polynomial identity; interpolated vertices go through ClipVert::new; the fan keeps (a, e[0], e[1]) order.",
    note="Trusted: rustc const evaluation and MIR construction, fact serialiser, documented Vec semantics. Not decided: exactness of the clipped region under float rounding, attribute values.",
    ref="§3 C03")

CHECKS["C15"] = dict(cat="other", technique="builder recipes (provenance terms of push_face/push_vert arguments) evaluated over rustc-const-evaluated tables and checked as oriented 2-manifolds; UNIT-provenance abstract class; dominance and index-polynomial rules",
    text="For the five table-driven builders (tetrahedron, box, octahedron, dodecahedron, icosahedron) the mesh each build() assembles is reconstructed from the recipe in its MIR over the tables the compiler evaluated, and checked cell by cell: indices valid, every directed edge once with its reverse once (closed, consistently oriented, watertight after merging), Euler characteristic 2, outward winding, unit vertex normals on the outward side, planar regular pentagons. For every solid including the lathe family: every normal handed to a vertex has UNIT provenance (normalize, unit literal/table entry, rotation of a unit vector, inductively through loops), every build() returns through mesh validation, parameter asserts guard construction, lathe quads tile p,p+1,p+n,p+n+1 with an oppositely traversed diagonal, both triangles are pushed on every iteration of the sector loop, the two cap fans are wound oppositely, Lathe::build never reorders or edits the profile it was given, and the cone's profile normal is perpendicular to its slant edge and leans outward for all radii (symbolic identity, witness radii on failure).",
    note="Trusted: rustc const evaluation and MIR construction; documented meaning of normalize/to_pt/Neg/Lerp. Not decided: lathe topology, seam and poles for every sector count, radii/extents (index arithmetic over runtime counts plus float rounding). geom is analysed under the ws and std configurations (it needs an fp feature).",
    ref="§3 C15")

CHECKS["C11"] = dict(cat="other", technique="who-may-touch / provenance / dominance rules over every use of the view's backing store; abstract interpretation of the checked index maths over orderings; polynomial identity for the constructor's size check",
    text="Decides the discipline by which a view touches its storage: every use of Inner.data is an index whose operand comes from to_index_checked/to_index_strict/resolve_bounds, an identity or resolve_bounds-consistent re-borrow with the parent's stride, a length query, the owner's accessor, or a whole-store traversal bounded by take(height) / guarded by an exact-extent check; chunk sizes are provably >= 1; Inner{..} is built only in Inner::new after w <= stride and (h-1)*stride + w <= len; resolve_bounds asserts dominate its index maths; to_index has only its two checked callers and to_index_checked returns Some exactly for x < w && y < h (all nine orderings); no index is truncated before its bounds check.",
    note="Trusted: rustc MIR construction, fact serialiser. Not decided: equality with an array model over operation histories; the start/end values resolve_bounds computes.",
    ref="§3 C11")
CHECKS["C13"] = dict(cat="other", technique="exhaustive panic-edge enumeration over the call graph with schema-based discharge (integer ranges through iterator chains into closures); callee contract verified by non-negativity certificates; format-table agreement by abstract interpretation",
    text="Decides totality of decoding and the structural half of the round trip: every panic edge below parse_pnm/read_pnm is discharged (constants, ranges bound through zip/cycle/rev/flat_map into the decoding closures, dominating comparisons) or lies inside Buf2::new_from, whose contract is checked three ways: its own panic edges are exactly the documented two, the call site establishes on every path a checked (non-overflowing) pixel count and data.len() >= count with the header's own dims, and every assertion/overflow in Inner::new is refuted under {stride = w, len = w*h, w*h <= u32::MAX} by polynomial non-negativity certificates. Format discriminants are the P1..P6 magics; every magic the header parser accepts has a decoding arm; write_ppm emits an accepted format.",
    note="Trusted: rustc MIR construction; std classification tables in sa/panics.py; caller-supplied iterator/reader methods do not panic; allocation failure out of scope. Not decided: pixel values of the round trip, text/binary agreement.",
    ref="§3 C13")
CHECKS["C14"] = dict(cat="other", technique="exhaustive panic-edge enumeration over the call graph with schema-based discharge; callee contract (attribution, precondition on every path, running-maximum invariant) by dominance and provenance",
    text="Decides totality of OBJ parsing and that the returned builder builds: every panic edge below parse_obj/read_obj is discharged (the unreachable!() arm by the std fact that whitespace tokens are non-empty) or lies inside Mesh::new, whose contract 'panics iff a face index >= verts.len()' is checked: Mesh::new has exactly that one panic edge; every path to the call passes `max_pos < verts.len()` or `faces.is_empty()`; max_pos is updated with every position index of every face on every loop iteration before the face is stored; every Ok(..) is Mesh::new(..).into_builder().",
    note="Trusted: rustc MIR construction; std classification tables; caller-supplied iterator/reader methods do not panic. Not decided: coordinates and indices reproduced faithfully.",
    ref="§3 C14")

CHECKS["C01"] = dict(cat="other", technique="MIR provenance / dominance rules on render(), its per-vertex closure, Scanline::fragments, the Target impls and the two front doors",
    text="Decides the shape every perspective-correct pipeline must have (necessary conditions only): clip is fed the triangles assembled from the vertex shader's output wrapped by ClipVert::new and dominates tri_fill, whose input derives from iterating the clip output; position vec3(x, y, 1.0) and attribute are divided by the same w (component 3 of that clip position); only the divided position goes through render()'s own to_screen; Scanline::fragments divides every varying by the interpolated 1/w of the same fragment and both Target impls get fragments only through it; Batch::render and Camera::render forward their own fields / to_world.then(world_to_project()) and viewport in one unconditional call.",
    note="Trusted: rustc MIR construction, fact serialiser. Not decided: anything numerical - image equality, pixel-centre rule, fan completeness, viewport orientation.",
    ref="§3 C01")
CHECKS["C12"] = dict(cat="other", technique="panic-edge enumeration with discharge; bounded-index provenance of each index component against its own axis; polynomial identities for the relative entry points; finite-domain abstract interpretation of the float->index conversion chain",
    text="Decides that neither bounded sampler can index out of range for any coordinate, in every feature configuration: the only panic edges below sample/sample_abs are the view's own bounds panic (discharged by each index component carrying `& mask` with mask = dim-1 under a dominating is_power_of_two assertion, resp. floor(clamp(x, 0.0, dim_f-1.0)) as u32, against the same axis), edges of the checked index maths (discharged by the Inner invariant for x<w, y<h) and f32::clamp's bound check; masks and Texture.w/h are verified at their construction sites; sample(tc) = sample_abs(uv(w*u, h*v)) as polynomial identities; SamplerOnce has no extra panic edge. Which texel the repeating sampler addresses: the masked value equals floor(coord) on every class of coordinate (negative/positive x integral/non-integral, -0.0; |coord| < 2^31) by a finite-domain interpretation of the conversion chain (floor, float->signed truncation, is_sign_negative, integer +/- constants, int->int; float->unsigned of negatives, narrow targets and float arithmetic before the floor are recognised as wrong), which also analyses helper functions and the repository's own floor in every feature configuration.",
    note="Hypotheses taken from the property: non-empty texture, repeat sampler used with its own texture; dimensions < 2^24. Trusted: saturating float->int casts, f32::clamp semantics. std/libm/micromath floor are trusted by name. Not decided: the clamping sampler's texel choice.",
    ref="§3 C12")
CHECKS["C17"] = dict(cat="other", technique="syntactic ranking argument on the recursion (decreasing zero-guarded budget, sole cycle), constructor-invariant dominance, control dependence of the emit, abstract interpretation of step() over orderings, symbolic interpretation of the evaluators/segment() with polynomial identities",
    text="Decides the structural clauses of approximate(): do_approx is the only recursion, every self-call passes max_dep-1 and is reachable only when max_dep != 0 (ranking function, also discharging the underflow), the initial budget is 10+len.ilog2() over [0,1]; BezierSpline is built only by new after len>=4 && len%3==1; the only emit is control-dependent on `max_dep==0 || halt(eval(mid) - lerp(eval(a),eval(b)))` and emits eval(a); the recursion covers [a,mid] then [mid,b]; step() returns min for t<=0 and max for t>=1 (all orderings); the last control point is pushed verbatim on every path after the recursion; eval/fast_eval return the end control points verbatim at and beyond the ends. Algebraic clauses as polynomial identities in t and the control points: for 0<t<1 eval (De Casteljau) = fast_eval (Horner) = the Bernstein form (hence a convex combination), tangent = its derivative; BezierSpline::segment returns, for every segment count 1..4 and every position of t (each floor(t*n) and t = 1), the four control points of segment i with i + local parameter = t*n; eval/tangent evaluate exactly that cubic at exactly that parameter.",
    note="Trusted: rustc MIR construction; the caller's halt closure terminates. Identities hold over the reals. Not decided: float rounding of the evaluators and of t*n at joins.",
    ref="§3 C17")

CHECKS["C09"] = dict(cat="other", technique="symbolic abstract interpretation of the matrix/vector functions' MIR over a commutative-ring domain; results compared as polynomial identities over Q (rotations modulo sin^2+cos^2=1) and, for the inverse, as rational functions in sympy's fraction field per enumerated pivot sequence",
    text="Decides the algebraic half of the property over the reals: compose is the matrix product and then() is compose() swapped (3x3, 4x4); applying a composition equals applying the parts in order (apply and apply_pt, affine matrices); the determinant is multiplicative (1008-term identity) and det(I)=1; transpose swaps indices; translate/scale/from_basis have their defining effect on points; rotate_x/y/z are orthogonal with determinant 1 and fix their axis; dot is the symmetric bilinear form and cross is anticommutative and orthogonal to its operands; orient_y/orient_z map their axis onto n, give pairwise orthogonal right-handed axes with the x axis on the hint's side (normalising factor opaque). The inverse: for every sequence of pivot rows partial pivoting can choose (6 on a symbolic affine matrix in the quick tier, all 24 on a general 16-symbol matrix in the thorough tier) Mat4x4::inverse returns N with N.M = I as an identity of rational functions (exact arithmetic with gcd cancellation), and the pivot search, executed with its real comparator under an order in which the row to be chosen has the strictly largest magnitude, returns that row. One known finding: apply() gives vectors the homogeneous coordinate 1, so a translation moves vectors (pinned by the existing tests, recorded in known_findings.txt).",
    note="Trusted: rustc MIR construction; the symbolic interpreter's models of iterator adaptors, array::from_fn/map and Into/From wrappers. A chosen pivot is taken to be non-zero (a zero column maximum means a singular matrix, outside the property). sympy (python3-vt) is used as an exact arithmetic library only. Not decided: conditioning, every float rounding effect.",
    ref="§8.7 C09")

CHECKS["C08"] = dict(cat="other", technique="symbolic abstract interpretation of perspective/orthographic/viewport on symbolic parameters; rational-function identities; sign by non-negativity certificate; structural rules for the camera",
    text="Decides the algebraic clauses over the reals for all valid parameters: perspective puts view z into clip w, sends the near plane to z_c = -w and the far plane to z_c = +w, scales x and y by fr and fr*ar, and is depth-monotone (slope coefficient 2fn/(n-f) < 0 by certificate); orthographic sends the box corners to (-1,-1,-1) and (1,1,1) with w = 1; viewport sends NDC (-1,-1) and (1,1) to the rectangle's corners and passes depth through; Camera::world_to_project is world_to_view.then(project), Camera::viewport builds its matrix AND its recorded dimensions from the request intersected with the frame on every path, Camera::perspective uses its own aspect ratio. First-person camera, with sin/cos of azimuth and altitude as indeterminates modulo sin^2+cos^2=1: the view transform takes the position to the origin, its axes are pairwise orthogonal, the heading goes to the positive depth axis, the right axis stays horizontal, the sideways hint handed to orient_z is never parallel to the heading for any altitude rotate_to allows (|hint x heading|^2 = r^2), and translate() moves along the horizontal heading/right/up axes independently of the altitude.",
    note="Trusted: rustc MIR construction, the symbolic interpreter's std models. Not decided: float rounding, pixel-exact pinhole geometry, unit length of the first-person axes (the normalising factor is opaque), disjoint viewport rectangles.",
    ref="§8.7 C08")
CHECKS["C18"] = dict(cat="other", technique="symbolic abstract interpretation with trigonometric functions as opaque function symbols; rational identities; constant-table check",
    text="Decides the algebraic/structural clauses: unit round trips rads/degs/turns are identities and the compile-time unit constants agree (360*RADS_PER_DEG = RADS_PER_TURN = 2pi to f32 precision); +, -, unary -, %, *f32, /f32, min, max act on the magnitude; wrap(a, lo, hi) = lo + rem_euclid(a-lo, hi-lo); polar/spherical <-> Cartesian conversions are exactly (r cos az, r sin az), (len, atan2(y, x)), r(cos az cos alt, sin alt, sin az cos alt), (len, atan2(z, x), atan2(y, sqrt(x^2+z^2))) on EVERY path through the conversion (paths enumerated over the comparisons the domain cannot decide; a path with another formula must be reachable by the zero vector only, and is reported with a witness vector when a non-zero vector reaches it and gets another radius/angle); sin_cos = (sin, cos).",
    note="Trusted: rem_euclid's contract; rustc MIR/const evaluation. Not decided: accuracy and ranges of the trigonometric functions, behaviour at zero vectors.",
    ref="§8.7 C18")

CHECKS["C16"] = dict(cat="other", technique="symbolic abstract interpretation of the packing / channel-plumbing / clamping / saturating colour functions on symbolic channels",
    text="Decides the structural second half of the property for all inputs: to_rgb_u32 / to_rgba_u32 / to_argb_u32 put the channels in the documented byte lanes; RGB<->RGBA and HSL<->HSLA keep the colour channels in place and set alpha to 0xFF / 1.0 resp. drop it; RGBA<->HSLA carry alpha through; float -> 8-bit is (clamp(c,0,1)*255) as u8 per channel; 8-bit colour + difference is clamp(i32(c)+d, 0, 255) as u8 (saturates, never wraps); channel accessors read their own lane; HSL->RGB selects its hue sextant by floor(6h) in the float and the 8-bit implementation alike and both realise the standard (c, x, 0) sextant table. The accuracy of the HSL<->RGB round trip is not claimed.",
    note="Trusted: saturating float->int casts; rustc MIR construction. Not decided: HSL<->RGB round-trip accuracy (1e-4 / 8/255), in-range results, hue wrap - numeric.",
    ref="§8.8 C16")

CHECKS["C20"] = dict(cat="other", technique="finite-domain abstract interpretation of the built-in floor over argument classes; bit-mask / sign-class rules; polynomial identities for Newton refinement steps; delegation-table agreement; cross-profile (debug vs release MIR) comparison of every float helper's return expression",
    text="Decides the exact and structural clauses only, in every feature configuration: the built-in floor is the exact floor on every class of argument (negative/positive x integral/non-integral, -0.0; |x| < 2^63); the built-in abs clears exactly the sign bit; the built-in rem_euclid (also used with libm) is (x % m) + [x negative]*m, hence in [0, m] and congruent to x for m > 0; the refinement steps of mm::sqrt, mm::recip_sqrt and the built-in recip_sqrt are Newton's iteration for the right function (polynomial identities) and std/libm recip_sqrt is powf(x, -0.5); every micromath wrapper delegates to the like-named micromath function with its arguments in order and the angle API reaches the like-named function of the configured back-end; raster::round_up_to_half is floor(x + 0.5) + 0.5 in every configuration (pixel rounding); and no float helper's returned expression depends on cfg(debug_assertions) (facts dumped a second time with -C debug-assertions=off and compared), so release builds behave like the builds the tests run in. The numeric agreement of the approximate functions with std is NOT claimed.",
    note="Trusted: libm's and micromath's own floor/abs/rem_euclid; IEEE semantics of `%`, to_bits/from_bits and saturating casts; rustc MIR construction in both profiles. Not decided: error bounds of sqrt, recip_sqrt, powf, exp and the trigonometric/inverse-trigonometric approximations over their domains (numeric), the fallback floor beyond 2^63, rem_euclid for m <= 0.",
    ref="§8.10 C20")

CHECKS["C04"] = dict(cat="other", technique="symbolic abstract interpretation of scan()/ScanlineIter::next/tri_fill with round_up_to_half as an uninterpreted function; exact rational-function identities per vertex-order scenario; class analysis of the rounding function",
    text="Decides the structural clauses only: scan(y0..y1) emits rows RND(y0), RND(y0)+1, ... in increasing order and exactly RND(y1)-RND(y0) of them; on the row at height Y the span runs from RND(x of the left edge at Y) to RND(x of the right edge at Y) (edge formulas as rational identities), the reported x range is the cast of those two rounded values and the fragment count the cast of their difference, so range and fragment sequence have the same length (non-negative coordinates); tri_fill, for every order of the three vertices' y and both left/right arrangements, fills top..mid then mid..bot with the middle vertex on the side the x comparison chose and the opposite corner on the long edge at the same y, so the two parts share a base: no gap, no row twice; the rounding function is floor(x+0.5)+0.5 (pixel-centre rule). Which centres fall inside under float rounding of the edge stepping is NOT claimed.",
    note="Identities over the reals. Trusted: rustc MIR construction, the symbolic interpreter's models (iterators, mem::replace, sort_by driven by the code's own comparator), sympy's fraction field as an arithmetic library. Not decided: the 0.001 px tolerance band, vertex-order independence of rounded values, degenerate triangles, negative coordinates (usize casts saturate).",
    ref="§8.11 C04/C05")
CHECKS["C05"] = dict(cat="other", technique="symbolic abstract interpretation of the scan converter on a trapezoid with planar vertex data; fragment position/depth/attribute compared with the plane formulas as exact rational-function identities; tri_fill per vertex-order scenario",
    text="Decides the interpolation FORMULA over the reals: for a symbolic trapezoid with horizontal bases whose corner data lie on a depth plane g and an attribute plane f, fragment (k, m) of scan() sits at x = RND(left edge x of its row) + m, y = RND(y0) + k (pixel centres, one apart), its depth is g at that position and its attribute is f/g at that position (the plane through the vertex values divided by the interpolated reciprocal depth: perspective correction); tri_fill, for every order of the vertices' y and both left/right arrangements, hands scan() trapezoids whose corners lie on the bases and on the same two planes (the split point is on the long edge with interpolated data). The 0.5 % accuracy of the incremental float evaluation and finiteness are NOT claimed.",
    note="Identities over the reals on a 2x3 (quick) / 3x4 (thorough) block of fragments; by linearity of the stepping the same formula governs every later fragment. Trusted: rustc MIR construction, the symbolic interpreter's models, sympy's fraction field as an arithmetic library. Not decided: rounding error, NaN/inf on degenerate input, the meaning of round_up_to_half (C20.F7 / C04.J4).",
    ref="§8.11 C04/C05")

NA = {}


def main():
    props = [json.loads(l) for l in open(os.path.join(V, "properties.jsonl"))]
    ids = [p["id"] for p in props]
    na_path = os.path.join(V, "tools", "not_applicable.json")
    na = json.load(open(na_path)) if os.path.exists(na_path) else {}
    checks = []
    for pid in ids:
        if pid in CHECKS:
            c = CHECKS[pid]
            checks.append({
                "property_id": pid,
                "quick_cmd": "./check %s --tier quick" % pid,
                "thorough_cmd": "./check %s --tier thorough" % pid,
                "evidence_file": "evidence/%s.json" % pid,
                "replay_cmd_template": "cat {path}",
                "engine": "sa",
                "level_claimed": {"category": c["cat"], "text": c["text"], "design_ref": c["ref"]},
                "level_note": c["note"],
                "technique": c["technique"],
            })
    m = {
        "version": 1,
        "setup_cmd": "cargo +nightly build --offline --release --manifest-path factdump/Cargo.toml",
        "hooks": {
            "guard": "retrofire_verif",
            "enable": "none needed: every analysis reads the unmodified crate through a rustc_private driver (RUSTC_WORKSPACE_WRAPPER under cargo +nightly check)",
            "baseline_off_cmd": "cd /repo && cargo test --workspace --no-fail-fast --offline",
            "source_commits": [],
            "add_only": True,
        },
        "engines": [
            {"name": "factdump", "path": "factdump/", "serves_properties": sorted(set(CHECKS) - {"C10"}),
             "kind_free_text": "rustc_private driver serialising MIR, evaluated constants, ADTs and impls of /repo's working tree (no rule logic)"},
            {"name": "sa", "path": "sa/", "serves_properties": sorted(CHECKS),
             "kind_free_text": "Python rule library: CFG/dominance, provenance terms, call graph, panic-edge discharge, interval domain, finite-domain and ring-domain abstract interpreter with path enumeration, GF(2) linear interpretation, constant-table rules; sa/fieldeval.py (python3-vt + sympy) does exact rational-function arithmetic for C09.A8"},
            {"name": "witness", "path": "witness/", "serves_properties": ["C10"],
             "kind_free_text": "compile-fail witness corpus (misuse/twin pairs) decided by rustc"},
        ],
        "checks": checks,
        "notes": "Static analysis only: every verdict is computed from /repo's current source as seen by the compiler. See DESIGN.md.",
        "not_applicable": [{"property_id": pid, "reason": na.get(pid, "not yet covered by a static rule; see DESIGN.md")}
                           for pid in ids if pid not in CHECKS],
    }
    with open(os.path.join(V, "MANIFEST.json"), "w") as f:
        json.dump(m, f, indent=1)
        f.write("\n")


if __name__ == "__main__":
    main()
