#!/usr/bin/env python3
"""tools/seed_meta.py [seed_dir ...] — (re)evaluate stored seeds against ALL registered checks and write
meta.json (`checks`: expected exit code per property, used by the thorough self-test)."""
import glob, json, os, subprocess, sys
from concurrent.futures import ThreadPoolExecutor

HERE = os.path.dirname(os.path.dirname(os.path.abspath(__file__)))
dirs = [os.path.abspath(d) for d in sys.argv[1:]] or sorted(glob.glob(os.path.join(HERE, "seeded", "*")))


WORKDIRS = set()


def one(d):
    if os.path.exists(os.path.join(d, "meta.json")):
        meta = json.load(open(os.path.join(d, "meta.json")))
    else:
        am = json.load(open(os.path.join(d, "agent_meta.json")))
        meta = {"property": am.get("property"), "breaks": am.get("summary") or am.get("breaks") or am.get("change") or am.get("what"),
                "needs_to_manifest": am.get("needs_to_manifest") or am.get("needs"),
                "author": "independent sub-agent given only the property text and a scratch worktree (round 2)"}
        json.dump(meta, open(os.path.join(d, "meta.json"), "w"), indent=1)
    import threading
    work = "/tmp/seedwork-%d" % (threading.get_ident() % 100000)
    WORKDIRS.add(work)
    r = subprocess.run([os.path.join(HERE, "tools", "seed_eval.py"), d, "ALL"], stdout=subprocess.PIPE, stderr=subprocess.PIPE, text=True,
                       env=dict(os.environ, SEED_WORK=work))
    try:
        ev = json.loads(r.stdout)
    except Exception:
        return d, "EVAL-ERROR " + r.stderr[-300:]
    json.dump(ev, open(os.path.join(d, "eval.json"), "w"), indent=1)
    dw = all(v[0] == 0 for v in ev["demo_without_patch"].values())
    dp = all(v[0] != 0 for v in ev.get("demo_with_patch", {}).values())
    # C10 seeds are compile-level: the demo is a program that must NOT compile without the patch
    if meta["property"] == "C10":
        # the demonstration must not compile without the patch; a twin program shipped with the seed compiles either way
        dem = lambda d_: {k: v for k, v in d_.items() if "twin" not in k}  # noqa: E731
        dw, dp = all(v[0] != 0 for v in dem(ev["demo_without_patch"]).values()), all(v[0] == 0 for v in dem(ev.get("demo_with_patch", {})).values())
    suite = ev.get("suite_with_patch") or [1, 0, 0]
    meta["confirmed"] = {"patch_applies_to_repo_head": bool(ev.get("patch_applies")),
                         "existing_suite_with_patch": "%d passed / %d failed (cargo test --workspace --offline)" % (suite[1], suite[2]),
                         "demo_without_patch": ("passes" if dw else "UNEXPECTED") if meta["property"] != "C10" else ("does not compile" if dw else "UNEXPECTED"),
                         "demo_with_patch": ("fails" if dp else "UNEXPECTED") if meta["property"] != "C10" else ("compiles" if dp else "UNEXPECTED"),
                         "how": "tools/seed_eval.py <dir> ALL in a scratch copy of /repo under /tmp (deleted afterwards)"}
    checks = {k: v[0] for k, v in ev.get("checks", {}).items() if v[0] != 0 or k == meta["property"]}
    meta["checks"] = checks
    meta["reported_keys"] = {k: [l.split("key=")[-1].rstrip(")") for l in v[1] if "key=" in l] for k, v in ev.get("checks", {}).items() if v[0] == 1}
    json.dump(meta, open(os.path.join(d, "meta.json"), "w"), indent=1)
    return d, "%s suite=%s demo(w/o,with)=(%s,%s) checks=%s" % (meta["property"], suite[1:], dw, dp, checks)


import shutil
try:
    with ThreadPoolExecutor(max_workers=5) as ex:
        for d, msg in ex.map(one, dirs):
            print(os.path.basename(d), msg, flush=True)
finally:
    for w in WORKDIRS:
        shutil.rmtree(w, ignore_errors=True)
