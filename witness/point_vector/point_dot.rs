//@ class: point/vector confusion
//@ entry: Vector::dot given a Point
//@ expect: E0308
use retrofire_core::math::{vec::Vec3, point::Point3, Lerp};

pub struct BasisA;

#[cfg(misuse)]
pub fn f(v: Vec3<BasisA>, p: Point3<BasisA>) -> f32 {
    v.dot(&p) //~ ERR
}

#[cfg(twin)]
pub fn f(v: Vec3<BasisA>, p: Point3<BasisA>) -> f32 {
    v.dot(&p.to_vec())
}
