//@ class: point/vector confusion
//@ entry: Point.lerp(&Vector)
//@ expect: E0308
use retrofire_core::math::{vec::Vec3, point::Point3, Lerp};

pub struct BasisA;

#[cfg(misuse)]
pub fn f(p: Point3<BasisA>, q: Vec3<BasisA>) -> Point3<BasisA> {
    p.lerp(&q, 0.5) //~ ERR
}

#[cfg(twin)]
pub fn f(p: Point3<BasisA>, q: Point3<BasisA>) -> Point3<BasisA> {
    p.lerp(&q, 0.5)
}
