//@ class: point/vector confusion
//@ entry: Point - Point result used as a Point
//@ expect: E0308
use retrofire_core::math::{vec::Vec3, point::Point3, Lerp};

pub struct BasisA;

#[cfg(misuse)]
pub fn f(p: Point3<BasisA>, q: Point3<BasisA>) -> Point3<BasisA> {
    p - q //~ ERR
}

#[cfg(twin)]
pub fn f(p: Point3<BasisA>, q: Point3<BasisA>) -> Vec3<BasisA> {
    p - q
}
