//@ class: point/vector confusion
//@ entry: Mat3x3<RealToReal<2>>::apply_pt given a vector
//@ expect: E0308
use retrofire_core::math::{mat::{Mat3x3, Mat4x4, RealToReal, RealToProj}, vec::{Vec2, Vec3, ProjVec4}, point::{Point2, Point3}};

pub struct BasisA;
pub struct BasisB;

#[cfg(misuse)]
pub fn f(m: &Mat3x3<RealToReal<2, BasisA, BasisB>>, v: Vec2<BasisA>) -> Point2<BasisB> {
    m.apply_pt(&v) //~ ERR
}

#[cfg(twin)]
pub fn f(m: &Mat3x3<RealToReal<2, BasisA, BasisB>>, v: Vec2<BasisA>) -> Point2<BasisB> {
    m.apply_pt(&v.to_pt())
}
