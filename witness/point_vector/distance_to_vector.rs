//@ class: point/vector confusion
//@ entry: Point::distance_sqr given a Vector
//@ expect: E0308
use retrofire_core::math::{vec::Vec3, point::Point3, Lerp};

pub struct BasisA;

#[cfg(misuse)]
pub fn f(p: Point3<BasisA>, v: Vec3<BasisA>) -> f32 {
    p.distance_sqr(&v) //~ ERR
}

#[cfg(twin)]
pub fn f(p: Point3<BasisA>, v: Vec3<BasisA>) -> f32 {
    p.distance_sqr(&v.to_pt())
}
