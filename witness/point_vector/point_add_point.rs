//@ class: point/vector confusion
//@ entry: Point + Point
//@ expect: E0308 E0277
use retrofire_core::math::{vec::Vec3, point::Point3, Lerp};

pub struct BasisA;

#[cfg(misuse)]
pub fn f(p: Point3<BasisA>, q: Point3<BasisA>) -> Point3<BasisA> {
    p + q //~ ERR
}

#[cfg(twin)]
pub fn f(p: Point3<BasisA>, q: Vec3<BasisA>) -> Point3<BasisA> {
    p + q
}
