//@ class: point/vector confusion
//@ entry: Mat4x4<RealToProj>::apply given a vector
//@ expect: E0308
use retrofire_core::math::{mat::{Mat3x3, Mat4x4, RealToReal, RealToProj}, vec::{Vec2, Vec3, ProjVec4}, point::{Point2, Point3}};

pub struct BasisA;

#[cfg(misuse)]
pub fn f(m: &Mat4x4<RealToProj<BasisA>>, v: Vec3<BasisA>) -> ProjVec4 {
    m.apply(&v) //~ ERR
}

#[cfg(twin)]
pub fn f(m: &Mat4x4<RealToProj<BasisA>>, v: Vec3<BasisA>) -> ProjVec4 {
    m.apply(&v.to_pt())
}
