//@ class: point/vector confusion
//@ entry: Mat3x3<RealToReal<2>>::apply given a point
//@ expect: E0308
use retrofire_core::math::{mat::{Mat3x3, Mat4x4, RealToReal, RealToProj}, vec::{Vec2, Vec3, ProjVec4}, point::{Point2, Point3}};

pub struct BasisA;
pub struct BasisB;

#[cfg(misuse)]
pub fn f(m: &Mat3x3<RealToReal<2, BasisA, BasisB>>, p: Point2<BasisA>) -> Vec2<BasisB> {
    m.apply(&p) //~ ERR
}

#[cfg(twin)]
pub fn f(m: &Mat3x3<RealToReal<2, BasisA, BasisB>>, p: Point2<BasisA>) -> Vec2<BasisB> {
    m.apply(&p.to_vec())
}
