//@ class: point/vector confusion
//@ entry: Mat4x4<RealToReal<3>>::apply_pt given a vector
//@ expect: E0308
use retrofire_core::math::{mat::{Mat3x3, Mat4x4, RealToReal, RealToProj}, vec::{Vec2, Vec3, ProjVec4}, point::{Point2, Point3}};

pub struct BasisA;
pub struct BasisB;

#[cfg(misuse)]
pub fn f(m: &Mat4x4<RealToReal<3, BasisA, BasisB>>, v: Vec3<BasisA>) -> Point3<BasisB> {
    m.apply_pt(&v) //~ ERR
}

#[cfg(twin)]
pub fn f(m: &Mat4x4<RealToReal<3, BasisA, BasisB>>, v: Vec3<BasisA>) -> Point3<BasisB> {
    m.apply_pt(&v.to_pt())
}
