//@ class: point/vector confusion
//@ entry: Vector + Point
//@ expect: E0308 E0277
use retrofire_core::math::{vec::Vec3, point::Point3, Lerp};

pub struct BasisA;

#[cfg(misuse)]
pub fn f(v: Vec3<BasisA>, p: Point3<BasisA>) -> Vec3<BasisA> {
    v + p //~ ERR
}

#[cfg(twin)]
pub fn f(v: Vec3<BasisA>, p: Vec3<BasisA>) -> Vec3<BasisA> {
    v + p
}
