//@ class: point/vector confusion
//@ entry: Point == Vector
//@ expect: E0308 E0277
use retrofire_core::math::{vec::Vec3, point::Point3, Lerp};

pub struct BasisA;

#[cfg(misuse)]
pub fn f(p: Point3<BasisA>, v: Vec3<BasisA>) -> bool {
    p == v //~ ERR
}

#[cfg(twin)]
pub fn f(p: Point3<BasisA>, v: Vec3<BasisA>) -> bool {
    p == v.to_pt()
}
