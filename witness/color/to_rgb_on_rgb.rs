//@ class: colour spaces
//@ entry: to_rgb() on an Rgb colour
//@ expect: E0599
use retrofire_core::math::{color::{Color3, Color3f, Color4, Color4f, Rgb, Rgba, Hsl, Hsla, LinRgb}, Lerp, Affine};

#[cfg(misuse)]
pub fn f(c: Color3f<Rgb>) -> Color3f<Rgb> {
    c.to_rgb() //~ ERR
}

#[cfg(twin)]
pub fn f(c: Color3f<Hsl>) -> Color3f<Rgb> {
    c.to_rgb()
}
