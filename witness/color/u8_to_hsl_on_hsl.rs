//@ class: colour spaces
//@ entry: to_hsl() on a u8 Hsl colour
//@ expect: E0599
use retrofire_core::math::{color::{Color3, Color3f, Color4, Color4f, Rgb, Rgba, Hsl, Hsla, LinRgb}, Lerp, Affine};

#[cfg(misuse)]
pub fn f(c: Color3<Hsl>) -> Color3<Hsl> {
    c.to_hsl() //~ ERR
}

#[cfg(twin)]
pub fn f(c: Color3<Rgb>) -> Color3<Hsl> {
    c.to_hsl()
}
