//@ class: colour spaces
//@ entry: Lerp::lerp between Color3f<Rgb> and Color3f<Hsl>
//@ expect: E0308
use retrofire_core::math::{color::{Color3, Color3f, Color4, Color4f, Rgb, Rgba, Hsl, Hsla, LinRgb}, Lerp, Affine};

#[cfg(misuse)]
pub fn f(a: Color3f<Rgb>, b: Color3f<Hsl>) -> Color3f<Rgb> {
    a.lerp(&b, 0.5) //~ ERR
}

#[cfg(twin)]
pub fn f(a: Color3f<Rgb>, b: Color3f<Hsl>) -> Color3f<Rgb> {
    a.lerp(&b.to_rgb(), 0.5)
}
