//@ class: colour spaces
//@ entry: to_argb_u32() on an Hsla colour
//@ expect: E0599
use retrofire_core::math::{color::{Color3, Color3f, Color4, Color4f, Rgb, Rgba, Hsl, Hsla, LinRgb}, Lerp, Affine};

#[cfg(misuse)]
pub fn f(c: Color4<Hsla>) -> u32 {
    c.to_argb_u32() //~ ERR
}

#[cfg(twin)]
pub fn f(c: Color4<Hsla>) -> u32 {
    c.to_rgba().to_argb_u32()
}
