//@ class: colour spaces
//@ entry: to_color3() (quantise to 8-bit sRGB) on a linear colour
//@ expect: E0599
//@ requires: fp
use retrofire_core::math::color::{Color3, Color3f, LinRgb};

#[cfg(misuse)]
pub fn f(c: Color3f<LinRgb>) -> Color3 {
    c.to_color3() //~ ERR
}

#[cfg(twin)]
pub fn f(c: Color3f<LinRgb>) -> Color3 {
    c.to_srgb().to_color3()
}
