//@ class: colour spaces
//@ entry: Lerp::lerp between 3- and 4-channel colours
//@ expect: E0308
use retrofire_core::math::{color::{Color3, Color3f, Color4, Color4f, Rgb, Rgba, Hsl, Hsla, LinRgb}, Lerp, Affine};

#[cfg(misuse)]
pub fn f(a: Color3f<Rgb>, b: Color4f<Rgba>) -> Color3f<Rgb> {
    a.lerp(&b, 0.5) //~ ERR
}

#[cfg(twin)]
pub fn f(a: Color3f<Rgb>, b: Color4f<Rgba>) -> Color3f<Rgb> {
    a.lerp(&b.to_rgb(), 0.5)
}
