//@ class: colour spaces
//@ entry: == across colour spaces
//@ expect: E0308 E0277
use retrofire_core::math::{color::{Color3, Color3f, Color4, Color4f, Rgb, Rgba, Hsl, Hsla, LinRgb}, Lerp, Affine};

#[cfg(misuse)]
pub fn f(a: Color3f<Rgb>, b: Color3f<Hsl>) -> bool {
    a == b //~ ERR
}

#[cfg(twin)]
pub fn f(a: Color3f<Rgb>, b: Color3f<Hsl>) -> bool {
    a == b.to_rgb()
}
