//@ class: colour spaces
//@ entry: Affine::sub across colour spaces
//@ expect: E0308
//@ requires: fp
use retrofire_core::math::{color::{Color3, Color3f, Color4, Color4f, Rgb, Rgba, Hsl, Hsla, LinRgb}, Lerp, Affine};

#[cfg(misuse)]
pub fn f(a: Color3f<LinRgb>, b: Color3f<Rgb>) -> Color3f<LinRgb> {
    a.sub(&b) //~ ERR
}

#[cfg(twin)]
pub fn f(a: Color3f<LinRgb>, b: Color3f<Rgb>) -> Color3f<LinRgb> {
    a.sub(&b.to_linear())
}
