//@ class: colour spaces
//@ entry: to_srgb() on an sRGB colour
//@ expect: E0599
//@ requires: fp
use retrofire_core::math::{color::{Color3, Color3f, Color4, Color4f, Rgb, Rgba, Hsl, Hsla, LinRgb}, Lerp, Affine};

#[cfg(misuse)]
pub fn f(c: Color3f<Rgb>) -> Color3f<Rgb> {
    c.to_srgb() //~ ERR
}

#[cfg(twin)]
pub fn f(c: Color3f<LinRgb>) -> Color3f<Rgb> {
    c.to_srgb()
}
