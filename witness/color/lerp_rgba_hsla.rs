//@ class: colour spaces
//@ entry: Lerp::lerp between Color4f<Rgba> and Color4f<Hsla>
//@ expect: E0308
use retrofire_core::math::{color::{Color3, Color3f, Color4, Color4f, Rgb, Rgba, Hsl, Hsla, LinRgb}, Lerp, Affine};

#[cfg(misuse)]
pub fn f(a: Color4f<Rgba>, b: Color4f<Hsla>) -> Color4f<Rgba> {
    a.lerp(&b, 0.5) //~ ERR
}

#[cfg(twin)]
pub fn f(a: Color4f<Rgba>, b: Color4f<Hsla>) -> Color4f<Rgba> {
    a.lerp(&b.to_rgba(), 0.5)
}
