//@ class: colour spaces
//@ entry: to_hsl() on an Hsl colour
//@ expect: E0599
use retrofire_core::math::{color::{Color3, Color3f, Color4, Color4f, Rgb, Rgba, Hsl, Hsla, LinRgb}, Lerp, Affine};

#[cfg(misuse)]
pub fn f(c: Color3f<Hsl>) -> Color3f<Hsl> {
    c.to_hsl() //~ ERR
}

#[cfg(twin)]
pub fn f(c: Color3f<Rgb>) -> Color3f<Hsl> {
    c.to_hsl()
}
