//@ class: colour spaces
//@ entry: hue accessor h() on an Rgb colour
//@ expect: E0599
use retrofire_core::math::{color::{Color3, Color3f, Color4, Color4f, Rgb, Rgba, Hsl, Hsla, LinRgb}, Lerp, Affine};

#[cfg(misuse)]
pub fn f(c: Color3f<Rgb>) -> f32 {
    c.h() //~ ERR
}

#[cfg(twin)]
pub fn f(c: Color3f<Rgb>) -> f32 {
    c.to_hsl().h()
}
