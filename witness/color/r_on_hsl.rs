//@ class: colour spaces
//@ entry: red-channel accessor r() on an Hsl colour
//@ expect: E0599
use retrofire_core::math::{color::{Color3, Color3f, Color4, Color4f, Rgb, Rgba, Hsl, Hsla, LinRgb}, Lerp, Affine};

#[cfg(misuse)]
pub fn f(c: Color3f<Hsl>) -> f32 {
    c.r() //~ ERR
}

#[cfg(twin)]
pub fn f(c: Color3f<Hsl>) -> f32 {
    c.to_rgb().r()
}
