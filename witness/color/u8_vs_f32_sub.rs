//@ class: colour spaces
//@ entry: Affine::sub between a u8 colour and an f32 colour
//@ expect: E0308
use retrofire_core::math::{color::{Color3, Color3f, Color4, Color4f, Rgb, Rgba, Hsl, Hsla, LinRgb}, Lerp, Affine};

#[cfg(misuse)]
pub fn f(a: Color3<Rgb>, b: Color3f<Rgb>) {
    let _ = a.sub(&b); //~ ERR
}

#[cfg(twin)]
pub fn f(a: Color3<Rgb>, b: Color3f<Rgb>) {
    let _ = a.sub(&b.to_color3());
}
