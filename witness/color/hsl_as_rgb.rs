//@ class: colour spaces
//@ entry: Color3f<Hsl> used where Color3f<Rgb> is expected
//@ expect: E0308
use retrofire_core::math::{color::{Color3, Color3f, Color4, Color4f, Rgb, Rgba, Hsl, Hsla, LinRgb}, Lerp, Affine};

#[cfg(misuse)]
pub fn f(c: Color3f<Hsl>) -> Color3f<Rgb> {
    c //~ ERR
}

#[cfg(twin)]
pub fn f(c: Color3f<Hsl>) -> Color3f<Rgb> {
    c.to_rgb()
}
