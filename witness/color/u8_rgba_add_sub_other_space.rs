//@ class: colour spaces
//@ entry: Affine::add on a u8 RGBA colour with the difference of two HSLA colours (no type named)
//@ expect: E0308
use retrofire_core::math::{color::{Color3, Color3f, Color4, Color4f, Rgb, Rgba, Hsl, Hsla, LinRgb}, Lerp, Affine};

#[cfg(misuse)]
pub fn f(a: Color4<Rgba>, p: Color4<Hsla>, q: Color4<Hsla>) -> Color4<Rgba> {
    a.add(&p.sub(&q)) //~ ERR
}

#[cfg(twin)]
pub fn f(a: Color4<Rgba>, p: Color4<Rgba>, q: Color4<Rgba>) -> Color4<Rgba> {
    a.add(&p.sub(&q))
}
