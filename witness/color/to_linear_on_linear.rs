//@ class: colour spaces
//@ entry: to_linear() on a linear colour
//@ expect: E0599
//@ requires: fp
use retrofire_core::math::{color::{Color3, Color3f, Color4, Color4f, Rgb, Rgba, Hsl, Hsla, LinRgb}, Lerp, Affine};

#[cfg(misuse)]
pub fn f(c: Color3f<LinRgb>) -> Color3f<LinRgb> {
    c.to_linear() //~ ERR
}

#[cfg(twin)]
pub fn f(c: Color3f<Rgb>) -> Color3f<LinRgb> {
    c.to_linear()
}
