//@ class: colour spaces
//@ entry: to_color4 on a float colour of a non-sRGB space (Color4f<Hsla>) — quantising to an sRGB pixel without conversion
//@ expect: E0599
use retrofire_core::math::{color::{Color3, Color3f, Color4, Color4f, Rgb, Rgba, Hsl, Hsla, LinRgb}, Lerp, Affine};

#[cfg(misuse)]
pub fn f(c: Color4f<Hsla>) -> Color4<Rgba> {
    c.to_color4() //~ ERR
}

#[cfg(twin)]
pub fn f(c: Color4f<Hsla>) -> Color4<Rgba> {
    c.to_rgba().to_color4()
}
