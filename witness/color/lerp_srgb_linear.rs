//@ class: colour spaces
//@ entry: Lerp::lerp between sRGB and linear RGB
//@ expect: E0308
//@ requires: fp
use retrofire_core::math::{color::{Color3, Color3f, Color4, Color4f, Rgb, Rgba, Hsl, Hsla, LinRgb}, Lerp, Affine};

#[cfg(misuse)]
pub fn f(a: Color3f<Rgb>, b: Color3f<LinRgb>) -> Color3f<Rgb> {
    a.lerp(&b, 0.5) //~ ERR
}

#[cfg(twin)]
pub fn f(a: Color3f<Rgb>, b: Color3f<LinRgb>) -> Color3f<Rgb> {
    a.lerp(&b.to_srgb(), 0.5)
}
