//@ class: colour spaces
//@ entry: Affine::add on a u8 colour with a difference vector of another colour space
//@ expect: E0308
use retrofire_core::math::{color::{Color3, Color3f, Color4, Color4f, Rgb, Rgba, Hsl, Hsla, LinRgb}, Lerp, Affine};
use retrofire_core::math::vec::Vector;

#[cfg(misuse)]
pub fn f(a: Color3<Rgb>, d: Vector<[i32; 3], Hsl>) -> Color3<Rgb> {
    a.add(&d) //~ ERR
}

#[cfg(twin)]
pub fn f(a: Color3<Rgb>, d: Vector<[i32; 3], Rgb>) -> Color3<Rgb> {
    a.add(&d)
}
