//@ class: colour spaces
//@ entry: Affine::add on a u8 colour with the difference of two colours of another space (no type named)
//@ expect: E0308
use retrofire_core::math::{color::{Color3, Color3f, Color4, Color4f, Rgb, Rgba, Hsl, Hsla, LinRgb}, Lerp, Affine};

#[cfg(misuse)]
pub fn f(a: Color3<Rgb>, p: Color3<Hsl>, q: Color3<Hsl>) -> Color3<Rgb> {
    a.add(&p.sub(&q)) //~ ERR
}

#[cfg(twin)]
pub fn f(a: Color3<Rgb>, p: Color3<Rgb>, q: Color3<Rgb>) -> Color3<Rgb> {
    a.add(&p.sub(&q))
}
