//@ class: composition with mismatching intermediate space
//@ entry: Matrix::compose result used as the reverse map
//@ expect: E0308 E0271
use retrofire_core::math::mat::{Mat3x3, Mat4x4, RealToReal, RealToProj};

pub struct BasisA;
pub struct BasisB;
pub struct BasisC;

#[cfg(misuse)]
pub fn f(inner: &Mat4x4<RealToReal<3, BasisA, BasisB>>, outer: &Mat4x4<RealToReal<3, BasisB, BasisC>>) -> Mat4x4<RealToReal<3, BasisC, BasisA>> {
    outer.compose(inner) //~ ERR
}

#[cfg(twin)]
pub fn f(inner: &Mat4x4<RealToReal<3, BasisA, BasisB>>, outer: &Mat4x4<RealToReal<3, BasisB, BasisC>>) -> Mat4x4<RealToReal<3, BasisA, BasisC>> {
    outer.compose(inner)
}
