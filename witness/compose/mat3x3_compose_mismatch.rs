//@ class: composition with mismatching intermediate space
//@ entry: Mat3x3 compose, (C->D).compose(A->B)
//@ expect: E0277 E0271 E0308
use retrofire_core::math::mat::{Mat3x3, Mat4x4, RealToReal, RealToProj};

pub struct BasisA;
pub struct BasisB;
pub struct BasisC;
pub struct BasisD;

#[cfg(misuse)]
pub fn f(inner: &Mat3x3<RealToReal<2, BasisA, BasisB>>, outer: &Mat3x3<RealToReal<2, BasisC, BasisD>>) -> Mat3x3<RealToReal<2, BasisA, BasisD>> {
    outer.compose(inner) //~ ERR
}

#[cfg(twin)]
pub fn f(inner: &Mat3x3<RealToReal<2, BasisA, BasisB>>, outer: &Mat3x3<RealToReal<2, BasisB, BasisD>>) -> Mat3x3<RealToReal<2, BasisA, BasisD>> {
    outer.compose(inner)
}
