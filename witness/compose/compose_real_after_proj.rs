//@ class: composition with mismatching intermediate space
//@ entry: Matrix::compose, real.compose(&proj)
//@ expect: E0277 E0271 E0308
use retrofire_core::math::mat::{Mat3x3, Mat4x4, RealToReal, RealToProj};

pub struct BasisA;
pub struct BasisB;

#[cfg(misuse)]
pub fn f(real: &Mat4x4<RealToReal<3, BasisA, BasisB>>, proj: &Mat4x4<RealToProj<BasisB>>) -> Mat4x4<RealToProj<BasisA>> {
    real.compose(proj) //~ ERR
}

#[cfg(twin)]
pub fn f(real: &Mat4x4<RealToReal<3, BasisA, BasisB>>, proj: &Mat4x4<RealToProj<BasisB>>) -> Mat4x4<RealToProj<BasisA>> {
    proj.compose(real)
}
