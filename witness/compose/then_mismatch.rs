//@ class: composition with mismatching intermediate space
//@ entry: Matrix::then, (A->B).then(C->D)
//@ expect: E0277 E0271 E0308
use retrofire_core::math::mat::{Mat3x3, Mat4x4, RealToReal, RealToProj};

pub struct BasisA;
pub struct BasisB;
pub struct BasisC;
pub struct BasisD;

#[cfg(misuse)]
pub fn f(first: &Mat4x4<RealToReal<3, BasisA, BasisB>>, second: &Mat4x4<RealToReal<3, BasisC, BasisD>>) -> Mat4x4<RealToReal<3, BasisA, BasisD>> {
    first.then(second) //~ ERR
}

#[cfg(twin)]
pub fn f(first: &Mat4x4<RealToReal<3, BasisA, BasisB>>, second: &Mat4x4<RealToReal<3, BasisB, BasisD>>) -> Mat4x4<RealToReal<3, BasisA, BasisD>> {
    first.then(second)
}
