//@ class: composition with mismatching intermediate space
//@ entry: Matrix::then, RealToProj after RealToProj
//@ expect: E0277 E0271 E0308
use retrofire_core::math::mat::{Mat3x3, Mat4x4, RealToReal, RealToProj};

pub struct BasisA;
pub struct BasisB;

#[cfg(misuse)]
pub fn f(first: &Mat4x4<RealToProj<BasisA>>, second: &Mat4x4<RealToProj<BasisB>>) -> Mat4x4<RealToProj<BasisA>> {
    first.then(second) //~ ERR
}

#[cfg(twin)]
pub fn f(first: &Mat4x4<RealToReal<3, BasisA, BasisB>>, second: &Mat4x4<RealToProj<BasisB>>) -> Mat4x4<RealToProj<BasisA>> {
    first.then(second)
}
