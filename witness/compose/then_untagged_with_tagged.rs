//@ class: composition with mismatching intermediate space
//@ entry: Matrix::then of an untagged matrix (translate) with a tagged one; needs Matrix::to
//@ expect: E0277 E0271 E0308
use retrofire_core::math::{mat::{Mat4x4, RealToReal}, vec::Vec3, translate};

pub struct BasisA;
pub struct BasisB;

#[cfg(misuse)]
pub fn f(t: Vec3, m: &Mat4x4<RealToReal<3, BasisA, BasisB>>) -> Mat4x4<RealToReal<3, BasisA, BasisB>> {
    translate(t).then(m) //~ ERR
}

#[cfg(twin)]
pub fn f(t: Vec3, m: &Mat4x4<RealToReal<3, BasisA, BasisB>>) -> Mat4x4<RealToReal<3, BasisA, BasisB>> {
    translate(t).to::<RealToReal<3, BasisA, BasisA>>().then(m)
}
