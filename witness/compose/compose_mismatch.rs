//@ class: composition with mismatching intermediate space
//@ entry: Matrix::compose, (C->D).compose(A->B)
//@ expect: E0277 E0271 E0308
use retrofire_core::math::mat::{Mat3x3, Mat4x4, RealToReal, RealToProj};

pub struct BasisA;
pub struct BasisB;
pub struct BasisC;
pub struct BasisD;

#[cfg(misuse)]
pub fn f(inner: &Mat4x4<RealToReal<3, BasisA, BasisB>>, outer: &Mat4x4<RealToReal<3, BasisC, BasisD>>) -> Mat4x4<RealToReal<3, BasisA, BasisD>> {
    outer.compose(inner) //~ ERR
}

#[cfg(twin)]
pub fn f(inner: &Mat4x4<RealToReal<3, BasisA, BasisB>>, outer: &Mat4x4<RealToReal<3, BasisB, BasisD>>) -> Mat4x4<RealToReal<3, BasisA, BasisD>> {
    outer.compose(inner)
}
