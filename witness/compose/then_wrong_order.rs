//@ class: composition with mismatching intermediate space
//@ entry: Matrix::then with operands in the wrong order
//@ expect: E0277 E0271 E0308
use retrofire_core::math::mat::{Mat3x3, Mat4x4, RealToReal, RealToProj};

pub struct BasisA;
pub struct BasisB;
pub struct BasisC;

#[cfg(misuse)]
pub fn f(first: &Mat4x4<RealToReal<3, BasisA, BasisB>>, second: &Mat4x4<RealToReal<3, BasisB, BasisC>>) -> Mat4x4<RealToReal<3, BasisA, BasisC>> {
    second.then(first) //~ ERR
}

#[cfg(twin)]
pub fn f(first: &Mat4x4<RealToReal<3, BasisA, BasisB>>, second: &Mat4x4<RealToReal<3, BasisB, BasisC>>) -> Mat4x4<RealToReal<3, BasisA, BasisC>> {
    first.then(second)
}
