//@ class: composition with mismatching intermediate space
//@ entry: Mat3x3 then with operands in the wrong order
//@ expect: E0277 E0271 E0308
use retrofire_core::math::mat::{Mat3x3, Mat4x4, RealToReal, RealToProj};

pub struct BasisA;
pub struct BasisB;
pub struct BasisC;

#[cfg(misuse)]
pub fn f(first: &Mat3x3<RealToReal<2, BasisA, BasisB>>, second: &Mat3x3<RealToReal<2, BasisB, BasisC>>) -> Mat3x3<RealToReal<2, BasisA, BasisC>> {
    second.then(first) //~ ERR
}

#[cfg(twin)]
pub fn f(first: &Mat3x3<RealToReal<2, BasisA, BasisB>>, second: &Mat3x3<RealToReal<2, BasisB, BasisC>>) -> Mat3x3<RealToReal<2, BasisA, BasisC>> {
    first.then(second)
}
