//@ class: bare number as angle / angle as number
//@ entry: degs(..) value used as an f32 scalar (Vector * Angle)
//@ expect: E0308 E0277
use retrofire_core::math::{vec::Vec3, angle::degs};

#[cfg(misuse)]
pub fn f(v: Vec3) -> Vec3 {
    v * degs(90.0) //~ ERR
}

#[cfg(twin)]
pub fn f(v: Vec3) -> Vec3 {
    v * degs(90.0).to_degs()
}
