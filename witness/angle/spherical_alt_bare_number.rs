//@ class: bare number as angle / angle as number
//@ entry: spherical(r, az, alt) with a bare altitude
//@ expect: E0308
use retrofire_core::math::angle::{Angle, PolarVec, SphericalVec, polar, spherical, rads, degs, turns};

#[cfg(misuse)]
pub fn f(r: f32, az: Angle, alt: f32) -> SphericalVec {
    spherical(r, az, alt) //~ ERR
}

#[cfg(twin)]
pub fn f(r: f32, az: Angle, alt: f32) -> SphericalVec {
    spherical(r, az, turns(alt))
}
