//@ class: bare number as angle / angle as number
//@ entry: PolarVec::az result (Angle) used as f32
//@ expect: E0308
use retrofire_core::math::angle::{Angle, PolarVec, SphericalVec, polar, spherical, rads, degs, turns};

#[cfg(misuse)]
pub fn f(p: PolarVec) -> f32 {
    p.az() //~ ERR
}

#[cfg(twin)]
pub fn f(p: PolarVec) -> f32 {
    p.az().to_rads()
}
