//@ class: bare number as angle / angle as number
//@ entry: Lerp::lerp between an Angle and an f32
//@ expect: E0308
use retrofire_core::math::angle::{Angle, PolarVec, SphericalVec, polar, spherical, rads, degs, turns};
use retrofire_core::math::Lerp;

#[cfg(misuse)]
pub fn f(a: Angle, b: f32) -> Angle {
    a.lerp(&b, 0.5) //~ ERR
}

#[cfg(twin)]
pub fn f(a: Angle, b: f32) -> Angle {
    a.lerp(&rads(b), 0.5)
}
