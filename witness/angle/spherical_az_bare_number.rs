//@ class: bare number as angle / angle as number
//@ entry: spherical(r, az, alt) with a bare azimuth
//@ expect: E0308
use retrofire_core::math::angle::{Angle, PolarVec, SphericalVec, polar, spherical, rads, degs, turns};

#[cfg(misuse)]
pub fn f(r: f32, az: f32, alt: Angle) -> SphericalVec {
    spherical(r, az, alt) //~ ERR
}

#[cfg(twin)]
pub fn f(r: f32, az: f32, alt: Angle) -> SphericalVec {
    spherical(r, degs(az), alt)
}
