//@ class: bare number as angle / angle as number
//@ entry: Angle::min given a float
//@ expect: E0308
use retrofire_core::math::angle::{Angle, PolarVec, SphericalVec, polar, spherical, rads, degs, turns};

#[cfg(misuse)]
pub fn f(a: Angle) -> Angle {
    a.min(1.0) //~ ERR
}

#[cfg(twin)]
pub fn f(a: Angle) -> Angle {
    a.min(rads(1.0))
}
