//@ class: bare number as angle / angle as number
//@ entry: Angle(..) tuple constructor (private field)
//@ expect: E0423
use retrofire_core::math::angle::{Angle, PolarVec, SphericalVec, polar, spherical, rads, degs, turns};

#[cfg(misuse)]
pub fn f() -> Angle {
    Angle(1.0) //~ ERR
}

#[cfg(twin)]
pub fn f() -> Angle {
    rads(1.0)
}
