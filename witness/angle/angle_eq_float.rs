//@ class: bare number as angle / angle as number
//@ entry: Angle == f32
//@ expect: E0308 E0277
use retrofire_core::math::angle::{Angle, PolarVec, SphericalVec, polar, spherical, rads, degs, turns};

#[cfg(misuse)]
pub fn f(a: Angle) -> bool {
    a == 1.0 //~ ERR
}

#[cfg(twin)]
pub fn f(a: Angle) -> bool {
    a == rads(1.0)
}
