//@ class: bare number as angle / angle as number
//@ entry: rotate_y
//@ expect: E0308
//@ requires: fp
use retrofire_core::math::{mat::{Mat4x4, RealToReal}, rotate_y, rads};

#[cfg(misuse)]
pub fn f() -> Mat4x4<RealToReal<3>> {
    rotate_y(1.0) //~ ERR
}

#[cfg(twin)]
pub fn f() -> Mat4x4<RealToReal<3>> {
    rotate_y(rads(1.0))
}
