//@ class: bare number as angle / angle as number
//@ entry: atan2 result (Angle) used as f32
//@ expect: E0308
//@ requires: fp
use retrofire_core::math::atan2;

#[cfg(misuse)]
pub fn f(y: f32, x: f32) -> f32 {
    atan2(y, x) //~ ERR
}

#[cfg(twin)]
pub fn f(y: f32, x: f32) -> f32 {
    atan2(y, x).to_rads()
}
