//@ class: bare number as angle / angle as number
//@ entry: polar(r, az)
//@ expect: E0308
use retrofire_core::math::angle::{Angle, PolarVec, SphericalVec, polar, spherical, rads, degs, turns};

#[cfg(misuse)]
pub fn f(r: f32, az: f32) -> PolarVec {
    polar(r, az) //~ ERR
}

#[cfg(twin)]
pub fn f(r: f32, az: f32) -> PolarVec {
    polar(r, rads(az))
}
