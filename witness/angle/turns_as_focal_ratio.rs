//@ class: bare number as angle / angle as number
//@ entry: turns(..) value (field of view) passed as the f32 focal ratio of perspective
//@ expect: E0308
use retrofire_core::math::{mat::Mat4x4, angle::turns, perspective};
use retrofire_core::render::ViewToProj;

#[cfg(misuse)]
pub fn f() -> Mat4x4<ViewToProj> {
    perspective(turns(0.25), 1.0, 0.1..100.0) //~ ERR
}

#[cfg(twin)]
pub fn f() -> Mat4x4<ViewToProj> {
    perspective(turns(0.25).to_turns(), 1.0, 0.1..100.0)
}
