//@ class: bare number as angle / angle as number
//@ entry: Angle::clamp given floats
//@ expect: E0308
use retrofire_core::math::angle::{Angle, PolarVec, SphericalVec, polar, spherical, rads, degs, turns};

#[cfg(misuse)]
pub fn f(a: Angle) -> Angle {
    a.clamp(-1.0, 1.0) //~ ERR
}

#[cfg(twin)]
pub fn f(a: Angle) -> Angle {
    a.clamp(rads(-1.0), rads(1.0))
}
