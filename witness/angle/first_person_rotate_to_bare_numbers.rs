//@ class: bare number as angle / angle as number
//@ entry: FirstPerson::rotate_to given floats
//@ expect: E0308
//@ requires: fp
use retrofire_core::render::cam::FirstPerson;
use retrofire_core::math::angle::{rads, degs};

#[cfg(misuse)]
pub fn f(cam: &mut FirstPerson) {
    cam.rotate_to(90.0, 0.0); //~ ERR
}

#[cfg(twin)]
pub fn f(cam: &mut FirstPerson) {
    cam.rotate_to(degs(90.0), degs(0.0));
}
