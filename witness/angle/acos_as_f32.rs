//@ class: bare number as angle / angle as number
//@ entry: acos result (Angle) used as f32
//@ expect: E0308
//@ requires: fp
use retrofire_core::math::acos;

#[cfg(misuse)]
pub fn f(x: f32) -> f32 {
    acos(x) //~ ERR
}

#[cfg(twin)]
pub fn f(x: f32) -> f32 {
    acos(x).to_degs()
}
