//@ class: bare number as angle / angle as number
//@ entry: rotate_x
//@ expect: E0308
//@ requires: fp
use retrofire_core::math::{rotate_x, rads, Mat4x4, mat::RealToReal};

#[cfg(misuse)]
pub fn f() -> Mat4x4<RealToReal<3>> {
    rotate_x(1.0) //~ ERR
}

#[cfg(twin)]
pub fn f() -> Mat4x4<RealToReal<3>> {
    rotate_x(rads(1.0))
}
