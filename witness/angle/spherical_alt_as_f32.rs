//@ class: bare number as angle / angle as number
//@ entry: SphericalVec::alt result (Angle) used as f32
//@ expect: E0308
use retrofire_core::math::angle::{Angle, PolarVec, SphericalVec, polar, spherical, rads, degs, turns};

#[cfg(misuse)]
pub fn f(s: SphericalVec) -> f32 {
    s.alt() //~ ERR
}

#[cfg(twin)]
pub fn f(s: SphericalVec) -> f32 {
    s.alt().to_turns()
}
