//@ class: bare number as angle / angle as number
//@ entry: Angle::wrap given floats
//@ expect: E0308
//@ requires: fp
use retrofire_core::math::angle::{Angle, PolarVec, SphericalVec, polar, spherical, rads, degs, turns};

#[cfg(misuse)]
pub fn f(a: Angle) -> Angle {
    a.wrap(-1.0, 1.0) //~ ERR
}

#[cfg(twin)]
pub fn f(a: Angle) -> Angle {
    a.wrap(rads(-1.0), rads(1.0))
}
