//@ class: bare number as angle / angle as number
//@ entry: Angle::sin result (f32) used as an Angle
//@ expect: E0308
//@ requires: fp
use retrofire_core::math::angle::{Angle, PolarVec, SphericalVec, polar, spherical, rads, degs, turns};

#[cfg(misuse)]
pub fn f(a: Angle) -> Angle {
    a.sin() //~ ERR
}

#[cfg(twin)]
pub fn f(a: Angle) -> Angle {
    rads(a.sin())
}
