//@ class: bare number as angle / angle as number
//@ entry: rotate_z
//@ expect: E0308
//@ requires: fp
use retrofire_core::math::{mat::{Mat4x4, RealToReal}, rotate_z, rads};

#[cfg(misuse)]
pub fn f(a: f32) -> Mat4x4<RealToReal<3>> {
    rotate_z(a) //~ ERR
}

#[cfg(twin)]
pub fn f(a: f32) -> Mat4x4<RealToReal<3>> {
    rotate_z(rads(a))
}
