//@ class: bare number as angle / angle as number
//@ entry: Angle - f32
//@ expect: E0308 E0277
use retrofire_core::math::angle::{Angle, PolarVec, SphericalVec, polar, spherical, rads, degs, turns};

#[cfg(misuse)]
pub fn f(a: Angle, b: f32) -> Angle {
    a - b //~ ERR
}

#[cfg(twin)]
pub fn f(a: Angle, b: f32) -> Angle {
    a - degs(b)
}
