//@ class: bare number as angle / angle as number
//@ entry: polar(r, az) with an Angle passed as the radius
//@ expect: E0308
use retrofire_core::math::angle::{Angle, PolarVec, SphericalVec, polar, spherical, rads, degs, turns};

#[cfg(misuse)]
pub fn f(r: Angle, az: Angle) -> PolarVec {
    polar(r, az) //~ ERR
}

#[cfg(twin)]
pub fn f(r: Angle, az: Angle) -> PolarVec {
    polar(r.to_rads(), az)
}
