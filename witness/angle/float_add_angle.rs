//@ class: bare number as angle / angle as number
//@ entry: f32 + Angle
//@ expect: E0308 E0277
use retrofire_core::math::angle::{Angle, PolarVec, SphericalVec, polar, spherical, rads, degs, turns};

#[cfg(misuse)]
pub fn f(a: f32, b: Angle) -> Angle {
    a + b //~ ERR
}

#[cfg(twin)]
pub fn f(a: f32, b: Angle) -> Angle {
    rads(a) + b
}
