//@ class: bare number as angle / angle as number
//@ entry: reading field .0 of an Angle (private field)
//@ expect: E0616
use retrofire_core::math::angle::{Angle, PolarVec, SphericalVec, polar, spherical, rads, degs, turns};

#[cfg(misuse)]
pub fn f(a: Angle) -> f32 {
    a.0 //~ ERR
}

#[cfg(twin)]
pub fn f(a: Angle) -> f32 {
    a.to_rads()
}
