//@ class: bare number as angle / angle as number
//@ entry: FirstPerson::rotate given floats
//@ expect: E0308
//@ requires: fp
use retrofire_core::render::cam::FirstPerson;
use retrofire_core::math::angle::{rads, degs};

#[cfg(misuse)]
pub fn f(cam: &mut FirstPerson, d_az: f32, d_alt: f32) {
    cam.rotate(d_az, d_alt); //~ ERR
}

#[cfg(twin)]
pub fn f(cam: &mut FirstPerson, d_az: f32, d_alt: f32) {
    cam.rotate(rads(d_az), rads(d_alt));
}
