//@ class: bare number as angle / angle as number
//@ entry: asin given an Angle
//@ expect: E0308
//@ requires: fp
use retrofire_core::math::{asin, angle::Angle};

#[cfg(misuse)]
pub fn f(a: Angle) -> Angle {
    asin(a) //~ ERR
}

#[cfg(twin)]
pub fn f(a: Angle) -> Angle {
    asin(a.sin())
}
