//@ class: different dimension
//@ entry: Matrix::compose of 4x4 matrices tagged RealToReal<2> and RealToReal<3>
//@ expect: E0308 E0277 E0271
use retrofire_core::math::{mat::{Mat3x3, Mat4x4, RealToReal}, vec::{Vec2, Vec3}};

#[cfg(misuse)]
pub fn f(m: &Mat4x4<RealToReal<2>>, n: &Mat4x4<RealToReal<3>>) {
    let _ = m.compose(n); //~ ERR
}

#[cfg(twin)]
pub fn f(m: &Mat4x4<RealToReal<3>>, n: &Mat4x4<RealToReal<3>>) {
    let _ = m.compose(n);
}
