//@ class: different dimension
//@ entry: Vec2 == Vec3
//@ expect: E0308 E0277
use retrofire_core::math::{vec::{Vec2, Vec3}, point::{Point2, Point3}, Lerp};

#[cfg(misuse)]
pub fn f(a: Vec2, b: Vec3) -> bool {
    a == b //~ ERR
}

#[cfg(twin)]
pub fn f(a: Vec2, b: Vec2) -> bool {
    a == b
}
