//@ class: different dimension
//@ entry: Point2 - Point3
//@ expect: E0308 E0277
use retrofire_core::math::{vec::{Vec2, Vec3}, point::{Point2, Point3}, Lerp};

#[cfg(misuse)]
pub fn f(p: Point2, q: Point3) -> Vec2 {
    p - q //~ ERR
}

#[cfg(twin)]
pub fn f(p: Point2, q: Point2) -> Vec2 {
    p - q
}
