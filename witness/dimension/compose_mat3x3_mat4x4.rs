//@ class: different dimension
//@ entry: Matrix::compose of a 3x3 with a 4x4 matrix
//@ expect: E0308
use retrofire_core::math::{mat::{Mat3x3, Mat4x4, RealToReal}, vec::{Vec2, Vec3}};

#[cfg(misuse)]
pub fn f(m: &Mat3x3<RealToReal<2>>, n: &Mat4x4<RealToReal<3>>) {
    let _ = m.compose(n); //~ ERR
}

#[cfg(twin)]
pub fn f(m: &Mat3x3<RealToReal<2>>, n: &Mat3x3<RealToReal<2>>) {
    let _ = m.compose(n);
}
