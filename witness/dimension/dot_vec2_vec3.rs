//@ class: different dimension
//@ entry: Vector::dot Vec2 . Vec3
//@ expect: E0308
use retrofire_core::math::{vec::{Vec2, Vec3}, point::{Point2, Point3}, Lerp};

#[cfg(misuse)]
pub fn f(a: Vec2, b: Vec3) -> f32 {
    a.dot(&b) //~ ERR
}

#[cfg(twin)]
pub fn f(a: Vec2, b: Vec2) -> f32 {
    a.dot(&b)
}
