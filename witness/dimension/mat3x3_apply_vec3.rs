//@ class: different dimension
//@ entry: Mat3x3<RealToReal<2>>::apply given a Vec3
//@ expect: E0308
use retrofire_core::math::{mat::{Mat3x3, Mat4x4, RealToReal}, vec::{Vec2, Vec3}};

#[cfg(misuse)]
pub fn f(m: &Mat3x3<RealToReal<2>>, v: Vec3) -> Vec2 {
    m.apply(&v) //~ ERR
}

#[cfg(twin)]
pub fn f(m: &Mat3x3<RealToReal<2>>, v: Vec2) -> Vec2 {
    m.apply(&v)
}
