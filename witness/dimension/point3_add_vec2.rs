//@ class: different dimension
//@ entry: Point3 + Vec2
//@ expect: E0308 E0277
use retrofire_core::math::{vec::{Vec2, Vec3}, point::{Point2, Point3}, Lerp};

#[cfg(misuse)]
pub fn f(p: Point3, v: Vec2) -> Point3 {
    p + v //~ ERR
}

#[cfg(twin)]
pub fn f(p: Point3, v: Vec3) -> Point3 {
    p + v
}
