//@ class: different dimension
//@ entry: Lerp::lerp Vec2 vs Vec3
//@ expect: E0308
use retrofire_core::math::{vec::{Vec2, Vec3}, point::{Point2, Point3}, Lerp};

#[cfg(misuse)]
pub fn f(a: Vec2, b: Vec3) -> Vec2 {
    a.lerp(&b, 0.5) //~ ERR
}

#[cfg(twin)]
pub fn f(a: Vec2, b: Vec2) -> Vec2 {
    a.lerp(&b, 0.5)
}
