//@ class: different dimension
//@ entry: Mat4x4<RealToReal<3>>::apply given a Vec2
//@ expect: E0308
use retrofire_core::math::{mat::{Mat3x3, Mat4x4, RealToReal}, vec::{Vec2, Vec3}};

#[cfg(misuse)]
pub fn f(m: &Mat4x4<RealToReal<3>>, v: Vec2) -> Vec3 {
    m.apply(&v) //~ ERR
}

#[cfg(twin)]
pub fn f(m: &Mat4x4<RealToReal<3>>, v: Vec3) -> Vec3 {
    m.apply(&v)
}
