//@ class: projective treated as affine
//@ entry: viewport matrix (NdcToScreen) applied to a clip-space ProjVec4 without perspective division
//@ expect: E0308
use retrofire_core::math::{mat::Mat4x4, vec::{Vec3, ProjVec4}};
use retrofire_core::render::{NdcToScreen, Ndc, Screen};

#[cfg(misuse)]
pub fn f(to_screen: &Mat4x4<NdcToScreen>, v: ProjVec4) -> Vec3<Screen> {
    to_screen.apply(&v) //~ ERR
}

#[cfg(twin)]
pub fn f(to_screen: &Mat4x4<NdcToScreen>, v: Vec3<Ndc>) -> Vec3<Screen> {
    to_screen.apply(&v)
}
