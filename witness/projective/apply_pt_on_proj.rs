//@ class: projective treated as affine
//@ entry: apply_pt on a RealToProj matrix
//@ expect: E0599
use retrofire_core::math::{mat::{Mat4x4, RealToReal, RealToProj}, vec::{Vec3, ProjVec4}, point::Point3};

pub struct BasisA;

#[cfg(misuse)]
pub fn f(m: &Mat4x4<RealToProj<BasisA>>, p: Point3<BasisA>) {
    let _ = m.apply_pt(&p); //~ ERR
}

#[cfg(twin)]
pub fn f(m: &Mat4x4<RealToProj<BasisA>>, p: Point3<BasisA>) {
    let _ = m.apply(&p);
}
