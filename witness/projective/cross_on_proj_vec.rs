//@ class: projective treated as affine
//@ entry: Vector::cross on a ProjVec4
//@ expect: E0599
use retrofire_core::math::{mat::{Mat4x4, RealToReal, RealToProj}, vec::{Vec3, ProjVec4}, point::Point3};

pub struct BasisA;

#[cfg(misuse)]
pub fn f(a: ProjVec4, b: ProjVec4) {
    let _ = a.cross(&b); //~ ERR
}

#[cfg(twin)]
pub fn f(a: Vec3<BasisA>, b: Vec3<BasisA>) {
    let _ = a.cross(&b);
}
