//@ class: projective treated as affine
//@ entry: re-applying a RealToProj matrix to its own ProjVec4 output
//@ expect: E0308
use retrofire_core::math::{mat::{Mat4x4, RealToReal, RealToProj}, vec::{Vec3, ProjVec4}, point::Point3};

pub struct BasisA;

#[cfg(misuse)]
pub fn f(m: &Mat4x4<RealToProj<BasisA>>, p: Point3<BasisA>) -> ProjVec4 {
    m.apply(&m.apply(&p)) //~ ERR
}

#[cfg(twin)]
pub fn f(m: &Mat4x4<RealToProj<BasisA>>, p: Point3<BasisA>) -> ProjVec4 {
    m.apply(&p)
}
