//@ class: projective treated as affine
//@ entry: Matrix::transpose on a RealToProj matrix
//@ expect: E0599
use retrofire_core::math::{mat::{Mat4x4, RealToReal, RealToProj}, vec::{Vec3, ProjVec4}, point::Point3};

pub struct BasisA;
pub struct BasisB;

#[cfg(misuse)]
pub fn f(m: Mat4x4<RealToProj<BasisA>>) {
    let _ = m.transpose(); //~ ERR
}

#[cfg(twin)]
pub fn f(m: Mat4x4<RealToReal<3, BasisA, BasisB>>) {
    let _ = m.transpose();
}
