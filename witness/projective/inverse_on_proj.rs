//@ class: projective treated as affine
//@ entry: Mat4x4::inverse on a RealToProj matrix
//@ expect: E0599
use retrofire_core::math::{mat::{Mat4x4, RealToReal, RealToProj}, vec::{Vec3, ProjVec4}, point::Point3};

pub struct BasisA;
pub struct BasisB;

#[cfg(misuse)]
pub fn f(m: &Mat4x4<RealToProj<BasisA>>) {
    let _ = m.inverse(); //~ ERR
}

#[cfg(twin)]
pub fn f(m: &Mat4x4<RealToReal<3, BasisA, BasisB>>) {
    let _ = m.inverse();
}
