//@ class: projective treated as affine
//@ entry: Mat4x4<RealToReal<3>>::apply given a ProjVec4
//@ expect: E0308
use retrofire_core::math::{mat::{Mat4x4, RealToReal, RealToProj}, vec::{Vec3, ProjVec4}, point::Point3};

pub struct BasisA;
pub struct BasisB;

#[cfg(misuse)]
pub fn f(m: &Mat4x4<RealToReal<3, BasisA, BasisB>>, v: ProjVec4) -> Vec3<BasisB> {
    m.apply(&v) //~ ERR
}

#[cfg(twin)]
pub fn f(m: &Mat4x4<RealToReal<3, BasisA, BasisB>>, v: Vec3<BasisA>) -> Vec3<BasisB> {
    m.apply(&v)
}
