//@ class: projective treated as affine
//@ entry: ProjVec4 + Vec3
//@ expect: E0308 E0277
use retrofire_core::math::{mat::{Mat4x4, RealToReal, RealToProj}, vec::{Vec3, ProjVec4}, point::Point3};

pub struct BasisA;

#[cfg(misuse)]
pub fn f(a: ProjVec4, b: Vec3<BasisA>) -> ProjVec4 {
    a + b //~ ERR
}

#[cfg(twin)]
pub fn f(a: ProjVec4, b: ProjVec4) -> ProjVec4 {
    a + b
}
