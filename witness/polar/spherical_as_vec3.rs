//@ class: polar/spherical vs Cartesian
//@ entry: SphericalVec passed where Vec3 is expected (translate)
//@ expect: E0308
//@ requires: fp
use retrofire_core::math::{angle::{PolarVec, SphericalVec}, vec::{Vec2, Vec3}};
use retrofire_core::math::{mat::{Mat4x4, RealToReal}, translate};

#[cfg(misuse)]
pub fn f(s: SphericalVec) -> Mat4x4<RealToReal<3>> {
    translate(s) //~ ERR
}

#[cfg(twin)]
pub fn f(s: SphericalVec) -> Mat4x4<RealToReal<3>> {
    translate(s.to_cart())
}
