//@ class: polar/spherical vs Cartesian
//@ entry: Cartesian accessor x() on a PolarVec
//@ expect: E0599
//@ requires: fp
use retrofire_core::math::{angle::{PolarVec, SphericalVec}, vec::{Vec2, Vec3}};

#[cfg(misuse)]
pub fn f(p: PolarVec) -> f32 {
    p.x() //~ ERR
}

#[cfg(twin)]
pub fn f(p: PolarVec) -> f32 {
    p.to_cart().x()
}
