//@ class: polar/spherical vs Cartesian
//@ entry: to_spherical() on a spherical vector
//@ expect: E0599
//@ requires: fp
use retrofire_core::math::{angle::{PolarVec, SphericalVec}, vec::{Vec2, Vec3}};

#[cfg(misuse)]
pub fn f(v: SphericalVec) -> SphericalVec {
    v.to_spherical() //~ ERR
}

#[cfg(twin)]
pub fn f(v: Vec3) -> SphericalVec {
    v.to_spherical()
}
