//@ class: polar/spherical vs Cartesian
//@ entry: PolarVec - Vec2
//@ expect: E0308 E0277
//@ requires: fp
use retrofire_core::math::{angle::{PolarVec, SphericalVec}, vec::{Vec2, Vec3}};

#[cfg(misuse)]
pub fn f(p: PolarVec, v: Vec2) -> PolarVec {
    p - v //~ ERR
}

#[cfg(twin)]
pub fn f(p: PolarVec, v: Vec2) -> PolarVec {
    p - v.to_polar()
}
