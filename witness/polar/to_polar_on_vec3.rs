//@ class: polar/spherical vs Cartesian
//@ entry: to_polar() on a Vec3
//@ expect: E0599
//@ requires: fp
use retrofire_core::math::{angle::{PolarVec, SphericalVec}, vec::{Vec2, Vec3}};

#[cfg(misuse)]
pub fn f(v: Vec3) -> PolarVec {
    v.to_polar() //~ ERR
}

#[cfg(twin)]
pub fn f(v: Vec2) -> PolarVec {
    v.to_polar()
}
