//@ class: polar/spherical vs Cartesian
//@ entry: Vec3 used where SphericalVec is expected (FirstPerson::heading)
//@ expect: E0308
//@ requires: fp
use retrofire_core::math::{angle::{PolarVec, SphericalVec}, vec::{Vec2, Vec3}};
use retrofire_core::render::cam::FirstPerson;

#[cfg(misuse)]
pub fn f(cam: &mut FirstPerson, dir: Vec3) {
    cam.heading = dir; //~ ERR
}

#[cfg(twin)]
pub fn f(cam: &mut FirstPerson, dir: Vec3) {
    cam.heading = dir.to_spherical();
}
