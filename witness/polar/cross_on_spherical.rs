//@ class: polar/spherical vs Cartesian
//@ entry: Vector::cross on a SphericalVec
//@ expect: E0599
//@ requires: fp
use retrofire_core::math::{angle::{PolarVec, SphericalVec}, vec::{Vec2, Vec3}};

#[cfg(misuse)]
pub fn f(s: SphericalVec, v: Vec3) -> Vec3 {
    s.cross(&v) //~ ERR
}

#[cfg(twin)]
pub fn f(s: SphericalVec, v: Vec3) -> Vec3 {
    s.to_cart().cross(&v)
}
