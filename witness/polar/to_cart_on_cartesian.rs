//@ class: polar/spherical vs Cartesian
//@ entry: to_cart() on a Cartesian vector
//@ expect: E0599
//@ requires: fp
use retrofire_core::math::{angle::{PolarVec, SphericalVec}, vec::{Vec2, Vec3}};

#[cfg(misuse)]
pub fn f(v: Vec2) -> Vec2 {
    v.to_cart() //~ ERR
}

#[cfg(twin)]
pub fn f(v: PolarVec) -> Vec2 {
    v.to_cart()
}
