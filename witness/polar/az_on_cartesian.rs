//@ class: polar/spherical vs Cartesian
//@ entry: polar accessor az() on a Vec2
//@ expect: E0599
//@ requires: fp
use retrofire_core::math::{angle::{PolarVec, SphericalVec}, vec::{Vec2, Vec3}};

#[cfg(misuse)]
pub fn f(v: Vec2) {
    let _ = v.az(); //~ ERR
}

#[cfg(twin)]
pub fn f(v: Vec2) {
    let _ = v.to_polar().az();
}
