//@ class: polar/spherical vs Cartesian
//@ entry: Mat3x3<RealToReal<2>>::apply given a PolarVec
//@ expect: E0308
//@ requires: fp
use retrofire_core::math::{angle::{PolarVec, SphericalVec}, vec::{Vec2, Vec3}};
use retrofire_core::math::mat::{Mat3x3, RealToReal};

#[cfg(misuse)]
pub fn f(m: &Mat3x3<RealToReal<2>>, p: PolarVec) -> Vec2 {
    m.apply(&p) //~ ERR
}

#[cfg(twin)]
pub fn f(m: &Mat3x3<RealToReal<2>>, p: PolarVec) -> Vec2 {
    m.apply(&p.to_cart())
}
