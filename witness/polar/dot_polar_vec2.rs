//@ class: polar/spherical vs Cartesian
//@ entry: Vector::dot between a Vec2 and a PolarVec
//@ expect: E0308
//@ requires: fp
use retrofire_core::math::{angle::{PolarVec, SphericalVec}, vec::{Vec2, Vec3}};

#[cfg(misuse)]
pub fn f(v: Vec2, p: PolarVec) -> f32 {
    v.dot(&p) //~ ERR
}

#[cfg(twin)]
pub fn f(v: Vec2, p: PolarVec) -> f32 {
    v.dot(&p.to_cart())
}
