//@ class: different basis, same dimension
//@ entry: CubicBezier control points in different bases
//@ expect: E0308
use retrofire_core::math::{point::Point3, spline::CubicBezier};

pub struct BasisA;
pub struct BasisB;

#[cfg(misuse)]
pub fn f(p0: Point3<BasisA>, p1: Point3<BasisA>, p2: Point3<BasisB>, p3: Point3<BasisA>) -> Point3<BasisA> {
    CubicBezier([p0, p1, p2, p3]).eval(0.5) //~ ERR
}

#[cfg(twin)]
pub fn f(p0: Point3<BasisA>, p1: Point3<BasisA>, p2: Point3<BasisA>, p3: Point3<BasisA>) -> Point3<BasisA> {
    CubicBezier([p0, p1, p2, p3]).eval(0.5)
}
