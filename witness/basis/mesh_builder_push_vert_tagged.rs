//@ class: different basis, same dimension
//@ entry: mesh::Builder::push_vert given a World-space point (takes a point in the default basis)
//@ expect: E0308
use retrofire_core::geom::mesh::Builder;
use retrofire_core::math::point::Point3;
use retrofire_core::render::World;

#[cfg(misuse)]
pub fn f(b: &mut Builder<()>, p: Point3<World>) {
    b.push_vert(p, ()); //~ ERR
}

#[cfg(twin)]
pub fn f(b: &mut Builder<()>, p: Point3<World>) {
    b.push_vert(p.to(), ());
}
