//@ class: different basis, same dimension
//@ entry: ApproxEq::approx_eq on points
//@ expect: E0308 E0277
use retrofire_core::math::{point::Point3, ApproxEq};

pub struct BasisA;
pub struct BasisB;

#[cfg(misuse)]
pub fn f(p: Point3<BasisA>, q: Point3<BasisB>) -> bool {
    p.approx_eq(&q) //~ ERR
}

#[cfg(twin)]
pub fn f(p: Point3<BasisA>, q: Point3<BasisA>) -> bool {
    p.approx_eq(&q)
}
