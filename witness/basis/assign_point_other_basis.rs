//@ class: different basis, same dimension
//@ entry: binding a Point3<B> where Point3<A> is expected (needs Point::to)
//@ expect: E0308
use retrofire_core::math::point::Point3;

pub struct BasisA;
pub struct BasisB;

#[cfg(misuse)]
pub fn f(q: Point3<BasisB>) -> Point3<BasisA> {
    q //~ ERR
}

#[cfg(twin)]
pub fn f(q: Point3<BasisB>) -> Point3<BasisA> {
    q.to()
}
