//@ class: different basis, same dimension
//@ entry: scale (takes a vector in the default basis)
//@ expect: E0308
use retrofire_core::math::{mat::{Mat4x4, RealToReal}, vec::Vec3, scale};

pub struct BasisA;

#[cfg(misuse)]
pub fn f(v: Vec3<BasisA>) -> Mat4x4<RealToReal<3>> {
    scale(v) //~ ERR
}

#[cfg(twin)]
pub fn f(v: Vec3<BasisA>) -> Mat4x4<RealToReal<3>> {
    scale(v.to())
}
