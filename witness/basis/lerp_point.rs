//@ class: different basis, same dimension
//@ entry: Lerp::lerp on points
//@ expect: E0308
use retrofire_core::math::{point::Point3, Lerp};

pub struct BasisA;
pub struct BasisB;

#[cfg(misuse)]
pub fn f(p: Point3<BasisA>, q: Point3<BasisB>) -> Point3<BasisA> {
    p.lerp(&q, 0.5) //~ ERR
}

#[cfg(twin)]
pub fn f(p: Point3<BasisA>, q: Point3<BasisA>) -> Point3<BasisA> {
    p.lerp(&q, 0.5)
}
