//@ class: different basis, same dimension
//@ entry: Vector::vector_project
//@ expect: E0308
use retrofire_core::math::vec::Vec3;

pub struct BasisA;
pub struct BasisB;

#[cfg(misuse)]
pub fn f(a: Vec3<BasisA>, b: Vec3<BasisB>) -> Vec3<BasisA> {
    a.vector_project(&b) //~ ERR
}

#[cfg(twin)]
pub fn f(a: Vec3<BasisA>, b: Vec3<BasisA>) -> Vec3<BasisA> {
    a.vector_project(&b)
}
