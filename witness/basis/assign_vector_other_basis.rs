//@ class: different basis, same dimension
//@ entry: binding a Vec3<B> where Vec3<A> is expected (needs Vector::to)
//@ expect: E0308
use retrofire_core::math::vec::Vec3;

pub struct BasisA;
pub struct BasisB;

#[cfg(misuse)]
pub fn f(b: Vec3<BasisB>) -> Vec3<BasisA> {
    b //~ ERR
}

#[cfg(twin)]
pub fn f(b: Vec3<BasisB>) -> Vec3<BasisA> {
    b.to()
}
