//@ class: different basis, same dimension
//@ entry: Point + Vector
//@ expect: E0308 E0277
use retrofire_core::math::{point::Point3, vec::Vec3};

pub struct BasisA;
pub struct BasisB;

#[cfg(misuse)]
pub fn f(p: Point3<BasisA>, v: Vec3<BasisB>) -> Point3<BasisA> {
    p + v //~ ERR
}

#[cfg(twin)]
pub fn f(p: Point3<BasisA>, v: Vec3<BasisA>) -> Point3<BasisA> {
    p + v
}
