//@ class: different basis, same dimension
//@ entry: orient_y (takes vectors in the default basis)
//@ expect: E0308
//@ requires: fp
use retrofire_core::math::{mat::{Mat4x4, RealToReal}, vec::Vec3, orient_y};

pub struct BasisA;

#[cfg(misuse)]
pub fn f(y: Vec3<BasisA>, x: Vec3) -> Mat4x4<RealToReal<3>> {
    orient_y(y, x) //~ ERR
}

#[cfg(twin)]
pub fn f(y: Vec3<BasisA>, x: Vec3) -> Mat4x4<RealToReal<3>> {
    orient_y(y.to(), x)
}
