//@ class: different basis, same dimension
//@ entry: ApproxEq::approx_eq on vectors
//@ expect: E0308 E0277
use retrofire_core::math::{vec::Vec3, ApproxEq};

pub struct BasisA;
pub struct BasisB;

#[cfg(misuse)]
pub fn f(a: Vec3<BasisA>, b: Vec3<BasisB>) -> bool {
    a.approx_eq(&b) //~ ERR
}

#[cfg(twin)]
pub fn f(a: Vec3<BasisA>, b: Vec3<BasisA>) -> bool {
    a.approx_eq(&b)
}
