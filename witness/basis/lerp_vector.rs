//@ class: different basis, same dimension
//@ entry: Lerp::lerp on vectors
//@ expect: E0308
use retrofire_core::math::{vec::Vec3, Lerp};

pub struct BasisA;
pub struct BasisB;

#[cfg(misuse)]
pub fn f(a: Vec3<BasisA>, b: Vec3<BasisB>) -> Vec3<BasisA> {
    a.lerp(&b, 0.5) //~ ERR
}

#[cfg(twin)]
pub fn f(a: Vec3<BasisA>, b: Vec3<BasisA>) -> Vec3<BasisA> {
    a.lerp(&b, 0.5)
}
