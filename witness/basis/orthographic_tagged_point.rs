//@ class: different basis, same dimension
//@ entry: orthographic (takes points in the default basis)
//@ expect: E0308
use retrofire_core::math::{mat::Mat4x4, point::Point3, orthographic};
use retrofire_core::render::ViewToProj;

pub struct BasisA;

#[cfg(misuse)]
pub fn f(lbn: Point3<BasisA>, rtf: Point3) -> Mat4x4<ViewToProj> {
    orthographic(lbn, rtf) //~ ERR
}

#[cfg(twin)]
pub fn f(lbn: Point3<BasisA>, rtf: Point3) -> Mat4x4<ViewToProj> {
    orthographic(lbn.to(), rtf)
}
