//@ class: different basis, same dimension
//@ entry: Point == Point
//@ expect: E0308 E0277
use retrofire_core::math::point::Point3;

pub struct BasisA;
pub struct BasisB;

#[cfg(misuse)]
pub fn f(p: Point3<BasisA>, q: Point3<BasisB>) -> bool {
    p == q //~ ERR
}

#[cfg(twin)]
pub fn f(p: Point3<BasisA>, q: Point3<BasisA>) -> bool {
    p == q
}
