//@ class: different basis, same dimension
//@ entry: Point::distance_sqr
//@ expect: E0308
use retrofire_core::math::point::Point3;

pub struct BasisA;
pub struct BasisB;

#[cfg(misuse)]
pub fn f(p: Point3<BasisA>, q: Point3<BasisB>) -> f32 {
    p.distance_sqr(&q) //~ ERR
}

#[cfg(twin)]
pub fn f(p: Point3<BasisA>, q: Point3<BasisA>) -> f32 {
    p.distance_sqr(&q)
}
