//@ class: different basis, same dimension
//@ entry: Iterator::sum over vectors (Sum impl)
//@ expect: E0277
use retrofire_core::math::vec::Vec3;

pub struct BasisA;
pub struct BasisB;

#[cfg(misuse)]
pub fn f(vs: [Vec3<BasisB>; 2]) -> Vec3<BasisA> {
    vs.into_iter().sum() //~ ERR
}

#[cfg(twin)]
pub fn f(vs: [Vec3<BasisA>; 2]) -> Vec3<BasisA> {
    vs.into_iter().sum()
}
