//@ class: different basis, same dimension
//@ entry: Mat4x4::from_basis (takes vectors in the default basis)
//@ expect: E0308
use retrofire_core::math::{mat::{Mat4x4, RealToReal}, vec::Vec3};

pub struct BasisA;

#[cfg(misuse)]
pub fn f(i: Vec3<BasisA>, j: Vec3, k: Vec3) -> Mat4x4<RealToReal<3>> {
    Mat4x4::from_basis(i, j, k) //~ ERR
}

#[cfg(twin)]
pub fn f(i: Vec3<BasisA>, j: Vec3, k: Vec3) -> Mat4x4<RealToReal<3>> {
    Mat4x4::from_basis(i.to(), j, k)
}
