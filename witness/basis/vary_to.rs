//@ class: different basis, same dimension
//@ entry: Vary::vary_to between vectors (interpolation iterator)
//@ expect: E0308
use retrofire_core::math::{vec::Vec3, Vary};

pub struct BasisA;
pub struct BasisB;

#[cfg(misuse)]
pub fn f(a: Vec3<BasisA>, b: Vec3<BasisB>) {
    let _ = a.vary_to(b, 4); //~ ERR
}

#[cfg(twin)]
pub fn f(a: Vec3<BasisA>, b: Vec3<BasisA>) {
    let _ = a.vary_to(b, 4);
}
