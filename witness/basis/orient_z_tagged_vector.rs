//@ class: different basis, same dimension
//@ entry: orient_z (takes vectors in the default basis)
//@ expect: E0308
//@ requires: fp
use retrofire_core::math::{mat::{Mat4x4, RealToReal}, vec::Vec3, orient_z};

pub struct BasisA;

#[cfg(misuse)]
pub fn f(z: Vec3, x: Vec3<BasisA>) -> Mat4x4<RealToReal<3>> {
    orient_z(z, x) //~ ERR
}

#[cfg(twin)]
pub fn f(z: Vec3, x: Vec3<BasisA>) -> Mat4x4<RealToReal<3>> {
    orient_z(z, x.to())
}
