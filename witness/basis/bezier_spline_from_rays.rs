//@ class: different basis, same dimension
//@ entry: BezierSpline::from_rays with ray direction in a different basis than its origin
//@ expect: E0308 E0271 E0277
use retrofire_core::geom::Ray;
use retrofire_core::math::{point::Point3, vec::Vec3, spline::BezierSpline};

pub struct BasisA;
pub struct BasisB;

#[cfg(misuse)]
pub fn f(rays: [Ray<Point3<BasisA>, Vec3<BasisB>>; 2]) -> BezierSpline<Point3<BasisA>> {
    BezierSpline::from_rays(rays) //~ ERR
}

#[cfg(twin)]
pub fn f(rays: [Ray<Point3<BasisA>, Vec3<BasisA>>; 2]) -> BezierSpline<Point3<BasisA>> {
    BezierSpline::from_rays(rays)
}
