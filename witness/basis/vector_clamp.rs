//@ class: different basis, same dimension
//@ entry: Vector::clamp
//@ expect: E0308
use retrofire_core::math::vec::Vec3;

pub struct BasisA;
pub struct BasisB;

#[cfg(misuse)]
pub fn f(v: Vec3<BasisA>, min: Vec3<BasisB>, max: Vec3<BasisA>) -> Vec3<BasisA> {
    v.clamp(&min, &max) //~ ERR
}

#[cfg(twin)]
pub fn f(v: Vec3<BasisA>, min: Vec3<BasisA>, max: Vec3<BasisA>) -> Vec3<BasisA> {
    v.clamp(&min, &max)
}
