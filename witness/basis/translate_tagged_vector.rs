//@ class: different basis, same dimension
//@ entry: translate (takes a vector in the default basis)
//@ expect: E0308
use retrofire_core::math::{mat::{Mat4x4, RealToReal}, vec::Vec3, translate};

pub struct BasisA;

#[cfg(misuse)]
pub fn f(v: Vec3<BasisA>) -> Mat4x4<RealToReal<3>> {
    translate(v) //~ ERR
}

#[cfg(twin)]
pub fn f(v: Vec3<BasisA>) -> Mat4x4<RealToReal<3>> {
    translate(v.to())
}
