//@ class: different basis, same dimension
//@ entry: Point::clamp
//@ expect: E0308
use retrofire_core::math::point::Point3;

pub struct BasisA;
pub struct BasisB;

#[cfg(misuse)]
pub fn f(p: Point3<BasisA>, min: Point3<BasisA>, max: Point3<BasisB>) -> Point3<BasisA> {
    p.clamp(&min, &max) //~ ERR
}

#[cfg(twin)]
pub fn f(p: Point3<BasisA>, min: Point3<BasisA>, max: Point3<BasisA>) -> Point3<BasisA> {
    p.clamp(&min, &max)
}
