//@ class: different basis, same dimension
//@ entry: Vector::dot
//@ expect: E0308
use retrofire_core::math::vec::Vec3;

pub struct BasisA;
pub struct BasisB;

#[cfg(misuse)]
pub fn f(a: Vec3<BasisA>, b: Vec3<BasisB>) -> f32 {
    a.dot(&b) //~ ERR
}

#[cfg(twin)]
pub fn f(a: Vec3<BasisA>, b: Vec3<BasisA>) -> f32 {
    a.dot(&b)
}
