//@ class: different basis, same dimension
//@ entry: SamplerClamp::sample given an untagged Vec2 instead of a TexCoord (Vec2<Tex>)
//@ expect: E0308
//@ requires: fp
use retrofire_core::math::{color::Color4, vec::Vec2};
use retrofire_core::render::tex::{SamplerClamp, Texture};
use retrofire_core::util::buf::Buf2;

#[cfg(misuse)]
pub fn f(tex: &Texture<Buf2<Color4>>, tc: Vec2) -> Color4 {
    SamplerClamp.sample(tex, tc) //~ ERR
}

#[cfg(twin)]
pub fn f(tex: &Texture<Buf2<Color4>>, tc: Vec2) -> Color4 {
    SamplerClamp.sample(tex, tc.to())
}
