//@ class: different basis, same dimension
//@ entry: Affine::add on a point (method call)
//@ expect: E0308
use retrofire_core::math::{point::Point3, vec::Vec3, Affine};

pub struct BasisA;
pub struct BasisB;

#[cfg(misuse)]
pub fn f(p: Point3<BasisA>, v: Vec3<BasisB>) -> Point3<BasisA> {
    p.add(&v) //~ ERR
}

#[cfg(twin)]
pub fn f(p: Point3<BasisA>, v: Vec3<BasisA>) -> Point3<BasisA> {
    p.add(&v)
}
