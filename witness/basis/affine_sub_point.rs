//@ class: different basis, same dimension
//@ entry: Affine::sub on points (method call)
//@ expect: E0308
use retrofire_core::math::{point::Point3, vec::Vec3, Affine};

pub struct BasisA;
pub struct BasisB;

#[cfg(misuse)]
pub fn f(p: Point3<BasisA>, q: Point3<BasisB>) -> Vec3<BasisA> {
    p.sub(&q) //~ ERR
}

#[cfg(twin)]
pub fn f(p: Point3<BasisA>, q: Point3<BasisA>) -> Vec3<BasisA> {
    p.sub(&q)
}
