//@ class: transform applied outside its source space
//@ entry: Mat4x4<RealToReal<3>> (default bases, e.g. from translate) applied to a Vec3<A>; needs Matrix::to
//@ expect: E0308
use retrofire_core::math::{mat::{Mat4x4, RealToReal}, vec::Vec3, translate};

pub struct BasisA;
pub struct BasisB;

#[cfg(misuse)]
pub fn f(t: Vec3, v: Vec3<BasisA>) -> Vec3<BasisB> {
    translate(t).apply(&v) //~ ERR
}

#[cfg(twin)]
pub fn f(t: Vec3, v: Vec3<BasisA>) -> Vec3<BasisB> {
    translate(t).to::<RealToReal<3, BasisA, BasisB>>().apply(&v)
}
