//@ class: transform applied outside its source space
//@ entry: Mat3x3<RealToReal<2,A,B>>::apply_pt given a Point2<B>
//@ expect: E0308
use retrofire_core::math::{mat::{Mat3x3, Mat4x4, RealToReal, RealToProj}, vec::{Vec2, Vec3, ProjVec4}, point::{Point2, Point3}};

pub struct BasisA;
pub struct BasisB;

#[cfg(misuse)]
pub fn f(m: &Mat3x3<RealToReal<2, BasisA, BasisB>>, p: Point2<BasisB>) -> Point2<BasisB> {
    m.apply_pt(&p) //~ ERR
}

#[cfg(twin)]
pub fn f(m: &Mat3x3<RealToReal<2, BasisA, BasisB>>, p: Point2<BasisA>) -> Point2<BasisB> {
    m.apply_pt(&p)
}
