//@ class: transform applied outside its source space
//@ entry: Mat4x4<RealToProj<A>>::apply given a Point3<B>
//@ expect: E0308
use retrofire_core::math::{mat::{Mat3x3, Mat4x4, RealToReal, RealToProj}, vec::{Vec2, Vec3, ProjVec4}, point::{Point2, Point3}};

pub struct BasisA;
pub struct BasisB;

#[cfg(misuse)]
pub fn f(m: &Mat4x4<RealToProj<BasisA>>, p: Point3<BasisB>) -> ProjVec4 {
    m.apply(&p) //~ ERR
}

#[cfg(twin)]
pub fn f(m: &Mat4x4<RealToProj<BasisA>>, p: Point3<BasisA>) -> ProjVec4 {
    m.apply(&p)
}
