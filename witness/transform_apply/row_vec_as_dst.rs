//@ class: transform applied outside its source space
//@ entry: Matrix::row_vec (source space) used as a destination-space vector
//@ expect: E0308
use retrofire_core::math::{mat::{Mat4x4, RealToReal}, vec::Vector, space::Real};

pub struct BasisA;
pub struct BasisB;

#[cfg(misuse)]
pub fn f(m: &Mat4x4<RealToReal<3, BasisA, BasisB>>) -> Vector<[f32; 4], Real<3, BasisB>> {
    m.row_vec(0) //~ ERR
}

#[cfg(twin)]
pub fn f(m: &Mat4x4<RealToReal<3, BasisA, BasisB>>) -> Vector<[f32; 4], Real<3, BasisA>> {
    m.row_vec(0)
}
