//@ class: transform applied outside its source space
//@ entry: Matrix::col_vec (destination space) used as a source-space vector
//@ expect: E0308
use retrofire_core::math::{mat::{Mat4x4, RealToReal}, vec::Vector, space::Real};

pub struct BasisA;
pub struct BasisB;

#[cfg(misuse)]
pub fn f(m: &Mat4x4<RealToReal<3, BasisA, BasisB>>) -> Vector<[f32; 4], Real<3, BasisA>> {
    m.col_vec(0) //~ ERR
}

#[cfg(twin)]
pub fn f(m: &Mat4x4<RealToReal<3, BasisA, BasisB>>) -> Vector<[f32; 4], Real<3, BasisB>> {
    m.col_vec(0)
}
