//@ class: transform applied outside its source space
//@ entry: mesh::Builder::transform given a Model->World matrix (expects Model->Model)
//@ expect: E0308
use retrofire_core::geom::mesh::Builder;
use retrofire_core::math::mat::{Mat4x4, RealToReal};
use retrofire_core::render::{Model, World};

#[cfg(misuse)]
pub fn f(b: Builder<()>, tf: &Mat4x4<RealToReal<3, Model, World>>) -> Builder<()> {
    b.transform(tf) //~ ERR
}

#[cfg(twin)]
pub fn f(b: Builder<()>, tf: &Mat4x4<RealToReal<3, Model, Model>>) -> Builder<()> {
    b.transform(tf)
}
