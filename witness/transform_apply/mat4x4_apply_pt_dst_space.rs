//@ class: transform applied outside its source space
//@ entry: Mat4x4<RealToReal<3,A,B>>::apply_pt given a Point3<B>
//@ expect: E0308
use retrofire_core::math::{mat::{Mat3x3, Mat4x4, RealToReal, RealToProj}, vec::{Vec2, Vec3, ProjVec4}, point::{Point2, Point3}};

pub struct BasisA;
pub struct BasisB;

#[cfg(misuse)]
pub fn f(m: &Mat4x4<RealToReal<3, BasisA, BasisB>>, p: Point3<BasisB>) -> Point3<BasisB> {
    m.apply_pt(&p) //~ ERR
}

#[cfg(twin)]
pub fn f(m: &Mat4x4<RealToReal<3, BasisA, BasisB>>, p: Point3<BasisA>) -> Point3<BasisB> {
    m.apply_pt(&p)
}
