//@ class: transform applied outside its source space
//@ entry: Mat4x4<ModelToProj>::apply given the position of a World-space Vertex3
//@ expect: E0308
use retrofire_core::geom::Vertex3;
use retrofire_core::math::{mat::Mat4x4, vec::ProjVec4};
use retrofire_core::render::{Model, ModelToProj, World};

#[cfg(misuse)]
pub fn f(mvp: &Mat4x4<ModelToProj>, v: Vertex3<(), World>) -> ProjVec4 {
    mvp.apply(&v.pos) //~ ERR
}

#[cfg(twin)]
pub fn f(mvp: &Mat4x4<ModelToProj>, v: Vertex3<(), Model>) -> ProjVec4 {
    mvp.apply(&v.pos)
}
