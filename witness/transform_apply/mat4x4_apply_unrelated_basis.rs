//@ class: transform applied outside its source space
//@ entry: Mat4x4<RealToReal<3,A,B>>::apply given a Vec3<C>
//@ expect: E0308
use retrofire_core::math::{mat::{Mat3x3, Mat4x4, RealToReal, RealToProj}, vec::{Vec2, Vec3, ProjVec4}, point::{Point2, Point3}};

pub struct BasisA;
pub struct BasisB;
pub struct BasisC;

#[cfg(misuse)]
pub fn f(m: &Mat4x4<RealToReal<3, BasisA, BasisB>>, v: Vec3<BasisC>) -> Vec3<BasisB> {
    m.apply(&v) //~ ERR
}

#[cfg(twin)]
pub fn f(m: &Mat4x4<RealToReal<3, BasisA, BasisB>>, v: Vec3<BasisA>) -> Vec3<BasisB> {
    m.apply(&v)
}
