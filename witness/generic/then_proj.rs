//@ class: tag-generic: no impl for two distinct tags
//@ entry: Matrix::then with a RealToProj matrix
//@ expect: E0277 E0271 E0308
use retrofire_core::math::{vec::{Vec2, Vec3}, point::{Point2, Point3}, mat::{Mat3x3, Mat4x4, RealToReal, RealToProj}, color::{Color3f, Color4f}, Lerp, Affine};

#[cfg(misuse)]
pub fn f<X, Y, Z>(first: &Mat4x4<RealToReal<3, X, Y>>, second: &Mat4x4<RealToProj<Z>>) -> Mat4x4<RealToProj<X>> {
    first.then(second) //~ ERR
}

#[cfg(twin)]
pub fn f<X, Y, Z>(first: &Mat4x4<RealToReal<3, X, Y>>, second: &Mat4x4<RealToProj<Y>>) -> Mat4x4<RealToProj<X>> {
    first.then(second)
}
