//@ class: tag-generic: no impl for two distinct tags
//@ entry: Matrix::compose
//@ expect: E0277 E0271 E0308
use retrofire_core::math::{vec::{Vec2, Vec3}, point::{Point2, Point3}, mat::{Mat3x3, Mat4x4, RealToReal, RealToProj}, color::{Color3f, Color4f}, Lerp, Affine};

#[cfg(misuse)]
pub fn f<X, Y, Z, W>(inner: &Mat4x4<RealToReal<3, X, Y>>, outer: &Mat4x4<RealToReal<3, Z, W>>) -> Mat4x4<RealToReal<3, X, W>> {
    outer.compose(inner) //~ ERR
}

#[cfg(twin)]
pub fn f<X, Y, Z, W>(inner: &Mat4x4<RealToReal<3, X, Y>>, outer: &Mat4x4<RealToReal<3, Y, W>>) -> Mat4x4<RealToReal<3, X, W>> {
    outer.compose(inner)
}
