//@ class: tag-generic: no impl for two distinct tags
//@ entry: Mat3x3<RealToReal<2,X,Y>>::apply
//@ expect: E0308
use retrofire_core::math::{vec::{Vec2, Vec3}, point::{Point2, Point3}, mat::{Mat3x3, Mat4x4, RealToReal, RealToProj}, color::{Color3f, Color4f}, Lerp, Affine};

#[cfg(misuse)]
pub fn f<X, Y>(m: &Mat3x3<RealToReal<2, X, Y>>, v: Vec2<Y>) -> Vec2<Y> {
    m.apply(&v) //~ ERR
}

#[cfg(twin)]
pub fn f<X, Y>(m: &Mat3x3<RealToReal<2, X, Y>>, v: Vec2<X>) -> Vec2<Y> {
    m.apply(&v)
}
