//@ class: tag-generic: no impl for two distinct tags
//@ entry: Point + Vector
//@ expect: E0308 E0277
use retrofire_core::math::{vec::{Vec2, Vec3}, point::{Point2, Point3}, mat::{Mat3x3, Mat4x4, RealToReal, RealToProj}, color::{Color3f, Color4f}, Lerp, Affine};

#[cfg(misuse)]
pub fn f<X, Y>(p: Point3<X>, v: Vec3<Y>) -> Point3<X> {
    p + v //~ ERR
}

#[cfg(twin)]
pub fn f<X, Y>(p: Point3<X>, v: Vec3<X>) -> Point3<X> {
    p + v
}
