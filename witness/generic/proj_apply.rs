//@ class: tag-generic: no impl for two distinct tags
//@ entry: Mat4x4<RealToProj<X>>::apply
//@ expect: E0308
use retrofire_core::math::{vec::{Vec2, Vec3}, point::{Point2, Point3}, mat::{Mat3x3, Mat4x4, RealToReal, RealToProj}, color::{Color3f, Color4f}, Lerp, Affine};

#[cfg(misuse)]
pub fn f<X, Y>(m: &Mat4x4<RealToProj<X>>, p: Point3<Y>) {
    let _ = m.apply(&p); //~ ERR
}

#[cfg(twin)]
pub fn f<X, Y>(m: &Mat4x4<RealToProj<X>>, p: Point3<X>) {
    let _ = m.apply(&p);
}
