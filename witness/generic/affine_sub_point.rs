//@ class: tag-generic: no impl for two distinct tags
//@ entry: Affine::sub on points
//@ expect: E0308
use retrofire_core::math::{vec::{Vec2, Vec3}, point::{Point2, Point3}, mat::{Mat3x3, Mat4x4, RealToReal, RealToProj}, color::{Color3f, Color4f}, Lerp, Affine};

#[cfg(misuse)]
pub fn f<X, Y>(p: Point3<X>, q: Point3<Y>) -> Vec3<X> {
    p.sub(&q) //~ ERR
}

#[cfg(twin)]
pub fn f<X, Y>(p: Point3<X>, q: Point3<X>) -> Vec3<X> {
    p.sub(&q)
}
