//@ class: tag-generic: no impl for two distinct tags
//@ entry: Vector::cross
//@ expect: E0308
use retrofire_core::math::{vec::{Vec2, Vec3}, point::{Point2, Point3}, mat::{Mat3x3, Mat4x4, RealToReal, RealToProj}, color::{Color3f, Color4f}, Lerp, Affine};

#[cfg(misuse)]
pub fn f<X, Y>(a: Vec3<X>, b: Vec3<Y>) -> Vec3<X> {
    a.cross(&b) //~ ERR
}

#[cfg(twin)]
pub fn f<X, Y>(a: Vec3<X>, b: Vec3<X>) -> Vec3<X> {
    a.cross(&b)
}
