//@ class: tag-generic: no impl for two distinct tags
//@ entry: m.inverse().apply(&v)
//@ expect: E0308
use retrofire_core::math::{vec::{Vec2, Vec3}, point::{Point2, Point3}, mat::{Mat3x3, Mat4x4, RealToReal, RealToProj}, color::{Color3f, Color4f}, Lerp, Affine};

#[cfg(misuse)]
pub fn f<X, Y>(m: &Mat4x4<RealToReal<3, X, Y>>, v: Vec3<X>) -> Vec3<X> {
    m.inverse().apply(&v) //~ ERR
}

#[cfg(twin)]
pub fn f<X, Y>(m: &Mat4x4<RealToReal<3, X, Y>>, v: Vec3<Y>) -> Vec3<X> {
    m.inverse().apply(&v)
}
