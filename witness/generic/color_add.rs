//@ class: tag-generic: no impl for two distinct tags
//@ entry: Affine::add on colours
//@ expect: E0308
use retrofire_core::math::{vec::{Vec2, Vec3}, point::{Point2, Point3}, mat::{Mat3x3, Mat4x4, RealToReal, RealToProj}, color::{Color3f, Color4f}, Lerp, Affine};

#[cfg(misuse)]
pub fn f<X, Y>(a: Color4f<X>, b: Color4f<Y>) -> Color4f<X> {
    a.add(&b) //~ ERR
}

#[cfg(twin)]
pub fn f<X, Y>(a: Color4f<X>, b: Color4f<X>) -> Color4f<X> {
    a.add(&b)
}
