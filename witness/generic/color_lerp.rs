//@ class: tag-generic: no impl for two distinct tags
//@ entry: Lerp::lerp on colours
//@ expect: E0308
use retrofire_core::math::{vec::{Vec2, Vec3}, point::{Point2, Point3}, mat::{Mat3x3, Mat4x4, RealToReal, RealToProj}, color::{Color3f, Color4f}, Lerp, Affine};

#[cfg(misuse)]
pub fn f<X, Y>(a: Color3f<X>, b: Color3f<Y>) -> Color3f<X> {
    a.lerp(&b, 0.5) //~ ERR
}

#[cfg(twin)]
pub fn f<X, Y>(a: Color3f<X>, b: Color3f<X>) -> Color3f<X> {
    a.lerp(&b, 0.5)
}
