//@ class: inverse/transposed map used in the original direction
//@ entry: m.then(&m) for m: A->B with A != B
//@ expect: E0277 E0271 E0308
use retrofire_core::math::{mat::{Mat4x4, RealToReal}, vec::Vec3, point::Point3};

pub struct BasisA;
pub struct BasisB;

#[cfg(misuse)]
pub fn f(m: &Mat4x4<RealToReal<3, BasisA, BasisB>>) {
    let _ = m.then(m); //~ ERR
}

#[cfg(twin)]
pub fn f(m: &Mat4x4<RealToReal<3, BasisA, BasisA>>) {
    let _ = m.then(m);
}
