//@ class: inverse/transposed map used in the original direction
//@ entry: m.transpose() used as a map in the original direction
//@ expect: E0308
use retrofire_core::math::{mat::{Mat4x4, RealToReal}, vec::Vec3, point::Point3};

pub struct BasisA;
pub struct BasisB;

#[cfg(misuse)]
pub fn f(m: Mat4x4<RealToReal<3, BasisA, BasisB>>) -> Mat4x4<RealToReal<3, BasisA, BasisB>> {
    m.transpose() //~ ERR
}

#[cfg(twin)]
pub fn f(m: Mat4x4<RealToReal<3, BasisA, BasisB>>) -> Mat4x4<RealToReal<3, BasisB, BasisA>> {
    m.transpose()
}
