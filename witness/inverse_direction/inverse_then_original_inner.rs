//@ class: inverse/transposed map used in the original direction
//@ entry: m.inverse().then(&n) where n expects m's destination space
//@ expect: E0277 E0271 E0308
use retrofire_core::math::{mat::{Mat4x4, RealToReal}, vec::Vec3, point::Point3};

pub struct BasisA;
pub struct BasisB;
pub struct BasisC;

#[cfg(misuse)]
pub fn f(m: &Mat4x4<RealToReal<3, BasisA, BasisB>>, n: &Mat4x4<RealToReal<3, BasisB, BasisC>>) {
    let _ = m.inverse().then(n); //~ ERR
}

#[cfg(twin)]
pub fn f(m: &Mat4x4<RealToReal<3, BasisA, BasisB>>, n: &Mat4x4<RealToReal<3, BasisB, BasisC>>) {
    let _ = m.then(n);
}
