//@ class: inverse/transposed map used in the original direction
//@ entry: m.transpose().apply(&v) with v in m's source space
//@ expect: E0308
use retrofire_core::math::{mat::{Mat4x4, RealToReal}, vec::Vec3, point::Point3};

pub struct BasisA;
pub struct BasisB;

#[cfg(misuse)]
pub fn f(m: Mat4x4<RealToReal<3, BasisA, BasisB>>, v: Vec3<BasisA>) -> Vec3<BasisA> {
    m.transpose().apply(&v) //~ ERR
}

#[cfg(twin)]
pub fn f(m: Mat4x4<RealToReal<3, BasisA, BasisB>>, v: Vec3<BasisB>) -> Vec3<BasisA> {
    m.transpose().apply(&v)
}
