//@ class: render front door
//@ entry: Shader::new with a fragment shader taking a different varying type than the vertex shader emits
//@ expect: E0631 E0271 E0277 E0308
use retrofire_core::geom::{vertex, Vertex3};
use retrofire_core::math::{color::{Color3f, Color4f}, mat::Mat4x4};
use retrofire_core::render::{raster::Frag, shader::Shader, ModelToProj};

#[cfg(misuse)]
pub fn f() {
    let _ = Shader::new( //~ ERR
        |v: Vertex3<Color4f>, mvp: Mat4x4<ModelToProj>| {
            vertex(mvp.apply(&v.pos), v.attrib)
        },
        |f: Frag<Color3f>| f.var.to_color4(),
    );
}

#[cfg(twin)]
pub fn f() {
    let _ = Shader::new(
        |v: Vertex3<Color4f>, mvp: Mat4x4<ModelToProj>| {
            vertex(mvp.apply(&v.pos), v.attrib)
        },
        |f: Frag<Color4f>| f.var.to_color4(),
    );
}
