//@ class: render front door
//@ entry: render::render with a vertex shader whose output position is a view-space Vec3 instead of a clip-space ProjVec4
//@ expect: E0271 E0277 E0308
use retrofire_core::geom::{vertex, Tri, Vertex3};
use retrofire_core::math::{color::Color4f, mat::Mat4x4};
use retrofire_core::render::{
    raster::Frag, render, shader::Shader, Context, ModelToView, NdcToScreen,
    Target, ViewToProj,
};

pub type Uni = (Mat4x4<ModelToView>, Mat4x4<ViewToProj>);

#[cfg(misuse)]
pub fn f<T: Target>(
    tris: &[Tri<usize>],
    verts: &[Vertex3<Color4f>],
    uni: Uni,
    vp: Mat4x4<NdcToScreen>,
    target: &mut T,
    ctx: &Context,
) {
    let shader = Shader::new(
        |v: Vertex3<Color4f>, (mv, proj): Uni| {
            vertex(mv.apply_pt(&v.pos).to_vec(), v.attrib) //~ ERR
        },
        |f: Frag<Color4f>| f.var.to_color4(),
    );
    render(tris, verts, &shader, uni, vp, target, ctx);
}

#[cfg(twin)]
pub fn f<T: Target>(
    tris: &[Tri<usize>],
    verts: &[Vertex3<Color4f>],
    uni: Uni,
    vp: Mat4x4<NdcToScreen>,
    target: &mut T,
    ctx: &Context,
) {
    let shader = Shader::new(
        |v: Vertex3<Color4f>, (mv, proj): Uni| {
            vertex(proj.apply(&mv.apply_pt(&v.pos)), v.attrib)
        },
        |f: Frag<Color4f>| f.var.to_color4(),
    );
    render(tris, verts, &shader, uni, vp, target, ctx);
}
