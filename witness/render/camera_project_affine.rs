//@ class: render front door
//@ entry: Camera::project field assigned an affine World->View matrix instead of a View->Proj matrix
//@ expect: E0308
use retrofire_core::math::mat::Mat4x4;
use retrofire_core::render::{Camera, ViewToProj, WorldToView};

#[cfg(misuse)]
pub fn f(cam: &mut Camera<()>, m: Mat4x4<WorldToView>) {
    cam.project = m; //~ ERR
}

#[cfg(twin)]
pub fn f(cam: &mut Camera<()>, m: Mat4x4<ViewToProj>) {
    cam.project = m;
}
