//@ class: render front door
//@ entry: Camera::mode given a Model->World matrix where a World->View matrix is expected
//@ expect: E0277 E0308
use retrofire_core::math::mat::Mat4x4;
use retrofire_core::render::{Camera, ModelToWorld, WorldToView};

#[cfg(misuse)]
pub fn f(m: Mat4x4<ModelToWorld>) {
    let _ = Camera::new((640, 480)).mode(m); //~ ERR
}

#[cfg(twin)]
pub fn f(m: Mat4x4<WorldToView>) {
    let _ = Camera::new((640, 480)).mode(m);
}
