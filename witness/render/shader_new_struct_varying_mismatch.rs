//@ class: render front door
//@ entry: Shader::new with a FragmentShader impl for a different varying type than the VertexShader impl emits
//@ expect: E0277 E0271
use retrofire_core::geom::{vertex, Vertex, Vertex3};
use retrofire_core::math::{color::{Color3f, Color4, Color4f}, mat::Mat4x4, vec::ProjVec4};
use retrofire_core::render::{
    raster::Frag, shader::Shader, FragmentShader, ModelToProj, VertexShader,
};

pub struct Vs;
impl VertexShader<Vertex3<Color4f>, Mat4x4<ModelToProj>> for Vs {
    type Output = Vertex<ProjVec4, Color4f>;
    fn shade_vertex(&self, v: Vertex3<Color4f>, mvp: Mat4x4<ModelToProj>) -> Self::Output {
        vertex(mvp.apply(&v.pos), v.attrib)
    }
}

pub struct Fs3;
impl FragmentShader<Color3f> for Fs3 {
    fn shade_fragment(&self, f: Frag<Color3f>) -> Option<Color4> {
        Some(f.var.to_color4())
    }
}

pub struct Fs4;
impl FragmentShader<Color4f> for Fs4 {
    fn shade_fragment(&self, f: Frag<Color4f>) -> Option<Color4> {
        Some(f.var.to_color4())
    }
}

#[cfg(misuse)]
pub fn f() {
    let _ = Shader::new(Vs, Fs3); //~ ERR
}

#[cfg(twin)]
pub fn f() {
    let _ = Shader::new(Vs, Fs4);
}
