//@ class: render front door
//@ entry: Batch::uniform given a Model->World matrix where the shader expects Model->Proj
//@ expect: E0277 E0271
use retrofire_core::geom::{vertex, Tri, Vertex, Vertex3};
use retrofire_core::math::{color::{Color3f, Color4, Color4f}, mat::Mat4x4, vec::ProjVec4};
use retrofire_core::render::{
    raster::Frag, render, Batch, Context, FragmentShader, Model, ModelToProj,
    ModelToWorld, NdcToScreen, Target, VertexShader, ViewToProj, World,
};

pub struct Sh;

impl VertexShader<Vertex3<Color4f>, Mat4x4<ModelToProj>> for Sh {
    type Output = Vertex<ProjVec4, Color4f>;
    fn shade_vertex(&self, v: Vertex3<Color4f>, mvp: Mat4x4<ModelToProj>) -> Self::Output {
        vertex(mvp.apply(&v.pos), v.attrib)
    }
}

impl FragmentShader<Color4f> for Sh {
    fn shade_fragment(&self, f: Frag<Color4f>) -> Option<Color4> {
        Some(f.var.to_color4())
    }
}

#[cfg(misuse)]
pub fn f(verts: &[Vertex3<Color4f>], m: Mat4x4<ModelToWorld>) {
    let _ = Batch::new().vertices(verts).uniform(m).shader(Sh); //~ ERR
}

#[cfg(twin)]
pub fn f(verts: &[Vertex3<Color4f>], m: Mat4x4<ModelToProj>) {
    let _ = Batch::new().vertices(verts).uniform(m).shader(Sh);
}
