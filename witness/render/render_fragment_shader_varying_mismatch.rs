//@ class: render front door
//@ entry: render::render with a Shader whose fragment shader takes a different varying type than its vertex shader emits
//@ expect: E0277 E0271
use retrofire_core::geom::{vertex, Tri, Vertex, Vertex3};
use retrofire_core::math::{color::{Color3f, Color4, Color4f}, mat::Mat4x4, vec::ProjVec4};
use retrofire_core::render::{
    raster::Frag, render, shader::Shader, Context, FragmentShader, ModelToProj,
    NdcToScreen, Target, VertexShader,
};

pub struct Vs;
impl VertexShader<Vertex3<Color4f>, Mat4x4<ModelToProj>> for Vs {
    type Output = Vertex<ProjVec4, Color4f>;
    fn shade_vertex(&self, v: Vertex3<Color4f>, mvp: Mat4x4<ModelToProj>) -> Self::Output {
        vertex(mvp.apply(&v.pos), v.attrib)
    }
}

pub struct Fs3;
impl FragmentShader<Color3f> for Fs3 {
    fn shade_fragment(&self, f: Frag<Color3f>) -> Option<Color4> {
        Some(f.var.to_color4())
    }
}

pub struct Fs4;
impl FragmentShader<Color4f> for Fs4 {
    fn shade_fragment(&self, f: Frag<Color4f>) -> Option<Color4> {
        Some(f.var.to_color4())
    }
}

#[cfg(misuse)]
pub fn f<T: Target>(
    tris: &[Tri<usize>],
    verts: &[Vertex3<Color4f>],
    mvp: Mat4x4<ModelToProj>,
    vp: Mat4x4<NdcToScreen>,
    target: &mut T,
    ctx: &Context,
) {
    let shader = Shader { vertex_shader: Vs, fragment_shader: Fs3 };
    render(tris, verts, &shader, mvp, vp, target, ctx); //~ ERR
}

#[cfg(twin)]
pub fn f<T: Target>(
    tris: &[Tri<usize>],
    verts: &[Vertex3<Color4f>],
    mvp: Mat4x4<ModelToProj>,
    vp: Mat4x4<NdcToScreen>,
    target: &mut T,
    ctx: &Context,
) {
    let shader = Shader { vertex_shader: Vs, fragment_shader: Fs4 };
    render(tris, verts, &shader, mvp, vp, target, ctx);
}
