//@ class: render front door
//@ entry: Shader::new with a fragment shader closure returning an Hsla colour instead of Rgba
//@ expect: E0277 E0271
use retrofire_core::geom::{vertex, Vertex3};
use retrofire_core::math::{color::{Color4, Color4f, Hsla}, mat::Mat4x4};
use retrofire_core::render::{raster::Frag, shader::Shader, ModelToProj};

#[cfg(misuse)]
pub fn f(c: Color4<Hsla>) {
    let _ = Shader::new(
        |v: Vertex3<Color4f>, mvp: Mat4x4<ModelToProj>| {
            vertex(mvp.apply(&v.pos), v.attrib)
        },
        move |_f: Frag<Color4f>| c, //~ ERR
    );
}

#[cfg(twin)]
pub fn f(c: Color4<Hsla>) {
    let _ = Shader::new(
        |v: Vertex3<Color4f>, mvp: Mat4x4<ModelToProj>| {
            vertex(mvp.apply(&v.pos), v.attrib)
        },
        move |_f: Frag<Color4f>| c.to_rgba(),
    );
}
