//@ class: render front door
//@ entry: Camera::render with a to_world matrix whose destination space is not World
//@ expect: E0308
use retrofire_core::geom::{vertex, Tri, Vertex3};
use retrofire_core::math::{color::Color4f, mat::{Mat4x4, RealToReal}};
use retrofire_core::render::{
    raster::Frag, shader::Shader, Camera, Context, Model, ModelToProj, Target,
    View, World, WorldToView,
};

#[cfg(misuse)]
pub fn f<T: Target>(
    cam: &Camera<Mat4x4<WorldToView>>,
    tris: &[Tri<usize>],
    verts: &[Vertex3<Color4f>],
    to_world: &Mat4x4<RealToReal<3, Model, View>>,
    target: &mut T,
    ctx: &Context,
) {
    let shader = Shader::new(
        |v: Vertex3<Color4f>, (mvp, _): (&Mat4x4<ModelToProj>, ())| {
            vertex(mvp.apply(&v.pos), v.attrib)
        },
        |f: Frag<Color4f>| f.var.to_color4(),
    );
    cam.render(tris, verts, to_world, &shader, (), target, ctx); //~ ERR
}

#[cfg(twin)]
pub fn f<T: Target>(
    cam: &Camera<Mat4x4<WorldToView>>,
    tris: &[Tri<usize>],
    verts: &[Vertex3<Color4f>],
    to_world: &Mat4x4<RealToReal<3, Model, World>>,
    target: &mut T,
    ctx: &Context,
) {
    let shader = Shader::new(
        |v: Vertex3<Color4f>, (mvp, _): (&Mat4x4<ModelToProj>, ())| {
            vertex(mvp.apply(&v.pos), v.attrib)
        },
        |f: Frag<Color4f>| f.var.to_color4(),
    );
    cam.render(tris, verts, to_world, &shader, (), target, ctx);
}
