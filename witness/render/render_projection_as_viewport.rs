//@ class: render front door
//@ entry: render::render with a projection matrix passed as the NDC-to-screen viewport matrix
//@ expect: E0308
use retrofire_core::geom::{vertex, Tri, Vertex, Vertex3};
use retrofire_core::math::{color::{Color3f, Color4, Color4f}, mat::Mat4x4, vec::ProjVec4};
use retrofire_core::render::{
    raster::Frag, render, Batch, Context, FragmentShader, Model, ModelToProj,
    ModelToWorld, NdcToScreen, Target, VertexShader, ViewToProj, World,
};

pub struct Sh;

impl VertexShader<Vertex3<Color4f>, Mat4x4<ModelToProj>> for Sh {
    type Output = Vertex<ProjVec4, Color4f>;
    fn shade_vertex(&self, v: Vertex3<Color4f>, mvp: Mat4x4<ModelToProj>) -> Self::Output {
        vertex(mvp.apply(&v.pos), v.attrib)
    }
}

impl FragmentShader<Color4f> for Sh {
    fn shade_fragment(&self, f: Frag<Color4f>) -> Option<Color4> {
        Some(f.var.to_color4())
    }
}

#[cfg(misuse)]
pub fn f<T: Target>(
    tris: &[Tri<usize>],
    verts: &[Vertex3<Color4f>],
    mvp: Mat4x4<ModelToProj>,
    vp: Mat4x4<ViewToProj>,
    target: &mut T,
    ctx: &Context,
) {
    render(tris, verts, &Sh, mvp, vp, target, ctx); //~ ERR
}

#[cfg(twin)]
pub fn f<T: Target>(
    tris: &[Tri<usize>],
    verts: &[Vertex3<Color4f>],
    mvp: Mat4x4<ModelToProj>,
    vp: Mat4x4<NdcToScreen>,
    target: &mut T,
    ctx: &Context,
) {
    render(tris, verts, &Sh, mvp, vp, target, ctx);
}
