//! factdump: a rustc_private driver that serialises what the compiler knows
//! about the crate being compiled (MIR bodies, evaluated constants, ADTs,
//! trait impls) into one JSON file per rustc process.
//!
//! It contains NO rule logic. All decisions are made by /verif/sa/*.py.
//!
//! Usage: as RUSTC_WORKSPACE_WRAPPER under `cargo +nightly check`, with
//! FACTDUMP_OUT=<dir>. Crates whose name is not listed in FACTDUMP_CRATES
//! (comma separated; default: retrofire_core,retrofire_geom) are compiled
//! normally without dumping.
#![feature(rustc_private)]
#![allow(unused)]

extern crate rustc_abi;
extern crate rustc_data_structures;
extern crate rustc_driver;
extern crate rustc_hir;
extern crate rustc_interface;
extern crate rustc_middle;
extern crate rustc_span;

use rustc_abi::{FieldsShape, Size, TagEncoding, Variants};
use rustc_hir::def::DefKind;
use rustc_hir::def_id::{DefId, LOCAL_CRATE};
use rustc_middle::mir::interpret::{AllocId, Allocation, GlobalAlloc, Scalar};
use rustc_middle::mir::*;
use rustc_middle::ty::print::{with_no_trimmed_paths, with_no_visible_paths};
use rustc_middle::ty::{self, GenericArgsRef, Ty, TyCtxt, TypeVisitableExt, TypingEnv};
use rustc_span::Span;
use std::fmt::Write as _;

// ---------------------------------------------------------------- JSON utils

fn q(s: &str) -> String {
    let mut o = String::with_capacity(s.len() + 2);
    o.push('"');
    for c in s.chars() {
        match c {
            '"' => o.push_str("\\\""),
            '\\' => o.push_str("\\\\"),
            '\n' => o.push_str("\\n"),
            '\r' => o.push_str("\\r"),
            '\t' => o.push_str("\\t"),
            c if (c as u32) < 0x20 => {
                let _ = write!(o, "\\u{:04x}", c as u32);
            }
            c => o.push(c),
        }
    }
    o.push('"');
    o
}

fn list(items: impl IntoIterator<Item = String>) -> String {
    let v: Vec<String> = items.into_iter().collect();
    format!("[{}]", v.join(","))
}

fn obj(items: &[(&str, String)]) -> String {
    let v: Vec<String> =
        items.iter().map(|(k, v)| format!("{}:{}", q(k), v)).collect();
    format!("{{{}}}", v.join(","))
}

fn opt(o: Option<String>) -> String {
    o.unwrap_or_else(|| "null".into())
}

// ---------------------------------------------------------------- naming

fn path_of(tcx: TyCtxt<'_>, did: DefId) -> String {
    let s = with_no_visible_paths!(with_no_trimmed_paths!(tcx.def_path_str(did)));
    if did.is_local() {
        format!("{}::{}", tcx.crate_name(LOCAL_CRATE), s)
    } else {
        s
    }
}

fn path_with_args<'tcx>(tcx: TyCtxt<'tcx>, did: DefId, args: GenericArgsRef<'tcx>) -> String {
    with_no_visible_paths!(with_no_trimmed_paths!(tcx.def_path_str_with_args(did, args)))
}

fn ty_str(ty: Ty<'_>) -> String {
    with_no_visible_paths!(with_no_trimmed_paths!(ty.to_string()))
}

fn line_of(tcx: TyCtxt<'_>, sp: Span) -> (String, usize) {
    let sp = sp.source_callsite();
    let loc = tcx.sess.source_map().lookup_char_pos(sp.lo());
    let f = format!("{}", loc.file.name.prefer_local_unconditionally());
    (f, loc.line)
}

fn macros_of(sp: Span) -> Vec<String> {
    let mut v = vec![];
    for e in sp.macro_backtrace() {
        match e.kind {
            rustc_span::ExpnKind::Macro(_, name) => v.push(name.to_string()),
            rustc_span::ExpnKind::Desugaring(d) => v.push(format!("desugar:{:?}", d)),
            _ => v.push("other".into()),
        }
    }
    v
}

// ---------------------------------------------------------------- bodies

struct Cx<'a, 'tcx> {
    tcx: TyCtxt<'tcx>,
    body: &'a Body<'tcx>,
    def_id: DefId,
    tenv: TypingEnv<'tcx>,
    with_promoted: bool,
}

impl<'a, 'tcx> Cx<'a, 'tcx> {
    fn place(&self, p: &Place<'tcx>) -> String {
        let tcx = self.tcx;
        let mut pty = PlaceTy::from_ty(self.body.local_decls[p.local].ty);
        let mut projs = vec![];
        for elem in p.projection.iter() {
            let s = match elem {
                ProjectionElem::Deref => q("*"),
                ProjectionElem::Field(f, fty) => {
                    let (name, of) = match pty.ty.kind() {
                        ty::Adt(def, _) => {
                            let vi = pty.variant_index.unwrap_or(rustc_abi::FIRST_VARIANT);
                            let v = def.variant(vi);
                            (v.fields[f].name.to_string(), path_of(tcx, def.did()))
                        }
                        ty::Tuple(_) => (f.index().to_string(), "tuple".to_string()),
                        ty::Closure(d, _) => {
                            (f.index().to_string(), format!("closure:{}", path_of(tcx, *d)))
                        }
                        _ => (f.index().to_string(), "?".to_string()),
                    };
                    obj(&[
                        ("f", f.index().to_string()),
                        ("n", q(&name)),
                        ("of", q(&of)),
                        ("ty", q(&ty_str(fty))),
                    ])
                }
                ProjectionElem::Index(l) => obj(&[("i", l.index().to_string())]),
                ProjectionElem::ConstantIndex { offset, min_length, from_end } => obj(&[
                    ("ci", offset.to_string()),
                    ("ml", min_length.to_string()),
                    ("fe", from_end.to_string()),
                ]),
                ProjectionElem::Subslice { from, to, from_end } => obj(&[(
                    "sub",
                    format!("[{},{},{}]", from, to, from_end),
                )]),
                ProjectionElem::Downcast(name, vi) => {
                    let n = match pty.ty.kind() {
                        ty::Adt(def, _) => def.variant(vi).name.to_string(),
                        _ => name.map(|s| s.to_string()).unwrap_or_default(),
                    };
                    obj(&[("dc", q(&n)), ("vi", vi.index().to_string())])
                }
                other => q(&format!("{:?}", other)),
            };
            projs.push(s);
            pty = pty.projection_ty(tcx, elem);
        }
        obj(&[("l", p.local.index().to_string()), ("p", list(projs))])
    }

    fn callee(&self, did: DefId, args: GenericArgsRef<'tcx>) -> String {
        let tcx = self.tcx;
        let mut items = vec![
            ("path", q(&path_of(tcx, did))),
            ("full", q(&path_with_args(tcx, did, args))),
            ("args", list(args.iter().map(|a| q(&with_no_visible_paths!(with_no_trimmed_paths!(a.to_string())))))),
            ("local", did.is_local().to_string()),
        ];
        let kind = tcx.def_kind(did);
        let mut tr = None;
        if matches!(kind, DefKind::AssocFn) {
            tr = tcx.trait_of_assoc(did);
        }
        items.push(("trait", opt(tr.map(|t| q(&path_of(tcx, t))))));
        let mut res = "null".to_string();
        if matches!(kind, DefKind::Fn | DefKind::AssocFn) && tr.is_some() {
            if let Ok(Some(inst)) = ty::Instance::try_resolve(tcx, self.tenv, did, args) {
                res = match inst.def {
                    ty::InstanceKind::Item(d) => obj(&[
                        ("path", q(&path_of(tcx, d))),
                        ("local", d.is_local().to_string()),
                        ("kind", q("item")),
                    ]),
                    ref other => {
                        let d = other.def_id();
                        obj(&[
                            ("path", q(&path_of(tcx, d))),
                            ("local", d.is_local().to_string()),
                            ("kind", q(&format!("{:?}", other).split('(').next().unwrap_or("").to_string())),
                        ])
                    }
                };
            }
        }
        items.push(("res", res));
        obj(&items)
    }

    fn constant(&self, c: &ConstOperand<'tcx>) -> String {
        let tcx = self.tcx;
        let ty = c.const_.ty();
        let mut items = vec![("ty", q(&ty_str(ty)))];
        if let ty::FnDef(did, args) = ty.kind() {
            items.push(("fn", self.callee(*did, args)));
        } else if let ty::Closure(did, _) = ty.kind() {
            items.push(("closure", q(&path_of(tcx, *did))));
        } else {
            let mut done = false;
            if ty.is_integral() || ty.is_bool() || ty.is_char() || ty.is_floating_point() {
                if let Some(si) = c.const_.try_eval_scalar_int(tcx, self.tenv) {
                    let bits = si.to_bits_unchecked();
                    let size = si.size().bits();
                    let v: String = if ty.is_signed() {
                        let sh = 128 - size;
                        (((bits << sh) as i128) >> sh).to_string()
                    } else if ty.is_floating_point() {
                        items.push(("bits", bits.to_string()));
                        let f = if size == 32 {
                            f32::from_bits(bits as u32) as f64
                        } else {
                            f64::from_bits(bits as u64)
                        };
                        if size == 32 {
                            let g = f32::from_bits(bits as u32);
                            if g.is_finite() { format!("{:?}", g) } else { q(&format!("{:?}", g)) }
                        } else if f.is_finite() { format!("{:?}", f) } else { q(&format!("{:?}", f)) }
                    } else {
                        bits.to_string()
                    };
                    items.push(("v", v));
                    done = true;
                }
            }
            if !done {
                if let Some(v) = self.eval_const(c) {
                    items.push(("val", v));
                }
                items.push(("s", q(&with_no_trimmed_paths!(format!("{:?}", c.const_)))));
                // unevaluated constants: record the item they name
                if let Const::Unevaluated(u, _) = c.const_ {
                    items.push(("uneval", q(&path_of(tcx, u.def))));
                    if u.promoted.is_some() {
                        items.push(("promoted", u.promoted.unwrap().index().to_string()));
                    }
                }
            }
        }
        obj(&items)
    }

    /// Evaluate a non-scalar constant operand (promoted, associated const, &-to-const)
    /// and decode it by type. Generic-dependent constants yield None.
    fn eval_const(&self, c: &ConstOperand<'tcx>) -> Option<String> {
        let tcx = self.tcx;
        let ty = c.const_.ty();
        if ty.has_non_region_param() {
            return None;
        }
        if let Const::Unevaluated(u, _) = c.const_ {
            if u.args.has_non_region_param() {
                return None;
            }
        }
        let cv = c.const_.eval(tcx, self.tenv, c.span).ok()?;
        decode_value(tcx, self.tenv, cv, ty)
    }

    fn operand(&self, o: &Operand<'tcx>) -> String {
        match o {
            Operand::Copy(p) => obj(&[("c", self.place(p))]),
            Operand::Move(p) => obj(&[("m", self.place(p))]),
            Operand::Constant(c) => obj(&[("k", self.constant(c))]),
            other => obj(&[("rt", q(&format!("{:?}", other)))]),
        }
    }

    fn rvalue(&self, rv: &Rvalue<'tcx>) -> String {
        let tcx = self.tcx;
        match rv {
            Rvalue::Use(o, _) => obj(&[("k", q("Use")), ("a", self.operand(o))]),
            Rvalue::Repeat(o, n) => obj(&[
                ("k", q("Repeat")),
                ("a", self.operand(o)),
                ("n", opt(n.try_to_target_usize(tcx).map(|x| x.to_string()))),
                ("ns", q(&format!("{}", n))),
            ]),
            Rvalue::Ref(_, bk, p) => obj(&[
                ("k", q("Ref")),
                ("mut", matches!(bk, BorrowKind::Mut { .. }).to_string()),
                ("fake", matches!(bk, BorrowKind::Fake(_)).to_string()),
                ("p", self.place(p)),
            ]),
            Rvalue::RawPtr(k, p) => obj(&[
                ("k", q("RawPtr")),
                ("kind", q(&format!("{:?}", k))),
                ("p", self.place(p)),
            ]),
            Rvalue::Cast(ck, o, t) => obj(&[
                ("k", q("Cast")),
                ("ck", q(&format!("{:?}", ck).split('(').next().unwrap().to_string())),
                ("ckfull", q(&format!("{:?}", ck))),
                ("a", self.operand(o)),
                ("from", q(&ty_str(o.ty(self.body, tcx)))),
                ("to", q(&ty_str(*t))),
            ]),
            Rvalue::BinaryOp(op, ab) => obj(&[
                ("k", q("BinaryOp")),
                ("op", q(&format!("{:?}", op))),
                ("a", self.operand(&ab.0)),
                ("b", self.operand(&ab.1)),
                ("ty", q(&ty_str(ab.0.ty(self.body, tcx)))),
            ]),
            Rvalue::UnaryOp(op, a) => obj(&[
                ("k", q("UnaryOp")),
                ("op", q(&format!("{:?}", op))),
                ("a", self.operand(a)),
                ("ty", q(&ty_str(a.ty(self.body, tcx)))),
            ]),
            Rvalue::Discriminant(p) => obj(&[("k", q("Discriminant")), ("p", self.place(p))]),
            Rvalue::Aggregate(ak, ops) => {
                let mut items = vec![("k", q("Aggregate"))];
                match &**ak {
                    AggregateKind::Array(t) => {
                        items.push(("ak", q("Array")));
                        items.push(("ety", q(&ty_str(*t))));
                    }
                    AggregateKind::Tuple => items.push(("ak", q("Tuple"))),
                    AggregateKind::Adt(did, vi, _args, _, active) => {
                        items.push(("ak", q("Adt")));
                        items.push(("adt", q(&path_of(tcx, *did))));
                        let def = tcx.adt_def(*did);
                        let v = def.variant(*vi);
                        items.push(("variant", q(&v.name.to_string())));
                        items.push((
                            "fields",
                            list(v.fields.iter().map(|f| q(&f.name.to_string()))),
                        ));
                    }
                    AggregateKind::Closure(did, _) => {
                        items.push(("ak", q("Closure")));
                        items.push(("closure", q(&path_of(tcx, *did))));
                    }
                    other => {
                        items.push(("ak", q("Other")));
                        items.push(("s", q(&format!("{:?}", other))));
                    }
                }
                items.push(("ops", list(ops.iter().map(|o| self.operand(o)))));
                obj(&items)
            }
            Rvalue::CopyForDeref(p) => obj(&[("k", q("CopyForDeref")), ("p", self.place(p))]),
            other => obj(&[("k", q("Other")), ("s", q(&format!("{:?}", other)))]),
        }
    }

    fn src(&self, sp: Span) -> Vec<(&'static str, String)> {
        let (_f, line) = line_of(self.tcx, sp);
        let mut v = vec![("line", line.to_string())];
        if sp.from_expansion() {
            v.push(("exp", list(macros_of(sp).into_iter().map(|s| q(&s)))));
        }
        v
    }

    fn statement(&self, st: &Statement<'tcx>) -> Option<String> {
        let mut items: Vec<(&str, String)> = vec![];
        match &st.kind {
            StatementKind::Assign(b) => {
                let (p, rv) = &**b;
                items.push(("k", q("Assign")));
                items.push(("lhs", self.place(p)));
                items.push(("rv", self.rvalue(rv)));
            }
            StatementKind::SetDiscriminant { place, variant_index } => {
                items.push(("k", q("SetDiscriminant")));
                items.push(("lhs", self.place(place)));
                items.push(("vi", variant_index.index().to_string()));
            }
            StatementKind::Intrinsic(i) => {
                items.push(("k", q("Intrinsic")));
                items.push(("s", q(&format!("{:?}", i))));
            }
            StatementKind::StorageLive(_)
            | StatementKind::StorageDead(_)
            | StatementKind::Nop
            | StatementKind::FakeRead(_)
            | StatementKind::PlaceMention(_)
            | StatementKind::AscribeUserType(..)
            | StatementKind::Coverage(..)
            | StatementKind::ConstEvalCounter
            | StatementKind::BackwardIncompatibleDropHint { .. } => return None,
            other => {
                items.push(("k", q("Other")));
                items.push(("s", q(&format!("{:?}", other))));
            }
        }
        items.extend(self.src(st.source_info.span));
        Some(obj(&items))
    }

    fn unwind(&self, u: &UnwindAction) -> String {
        match u {
            UnwindAction::Cleanup(bb) => bb.index().to_string(),
            _ => "null".into(),
        }
    }

    fn terminator(&self, t: &Terminator<'tcx>) -> String {
        let tcx = self.tcx;
        let mut items: Vec<(&str, String)> = vec![];
        match &t.kind {
            TerminatorKind::Goto { target } => {
                items.push(("k", q("Goto")));
                items.push(("t", target.index().to_string()));
            }
            TerminatorKind::SwitchInt { discr, targets } => {
                items.push(("k", q("SwitchInt")));
                items.push(("discr", self.operand(discr)));
                items.push(("dty", q(&ty_str(discr.ty(self.body, tcx)))));
                items.push((
                    "targets",
                    list(targets.iter().map(|(v, bb)| format!("[{},{}]", v, bb.index()))),
                ));
                items.push(("otherwise", targets.otherwise().index().to_string()));
            }
            TerminatorKind::Return => items.push(("k", q("Return"))),
            TerminatorKind::Unreachable => items.push(("k", q("Unreachable"))),
            TerminatorKind::UnwindResume => items.push(("k", q("UnwindResume"))),
            TerminatorKind::UnwindTerminate(_) => items.push(("k", q("UnwindTerminate"))),
            TerminatorKind::Drop { place, target, unwind, .. } => {
                items.push(("k", q("Drop")));
                items.push(("p", self.place(place)));
                items.push(("t", target.index().to_string()));
                items.push(("unwind", self.unwind(unwind)));
            }
            TerminatorKind::Call { func, args, destination, target, unwind, call_source, fn_span } => {
                items.push(("k", q("Call")));
                match func {
                    Operand::Constant(c) => {
                        if let ty::FnDef(did, ga) = c.const_.ty().kind() {
                            items.push(("callee", self.callee(*did, ga)));
                        } else {
                            items.push(("indirect", self.operand(func)));
                        }
                    }
                    _ => items.push(("indirect", self.operand(func))),
                }
                items.push(("args", list(args.iter().map(|a| self.operand(&a.node)))));
                items.push(("dest", self.place(destination)));
                items.push(("t", opt(target.map(|b| b.index().to_string()))));
                items.push(("unwind", self.unwind(unwind)));
                items.push(("src", q(&format!("{:?}", call_source))));
            }
            TerminatorKind::Assert { cond, expected, msg, target, unwind } => {
                items.push(("k", q("Assert")));
                items.push(("cond", self.operand(cond)));
                items.push(("expected", expected.to_string()));
                let (kind, ops): (String, Vec<String>) = match &**msg {
                    AssertKind::BoundsCheck { len, index } => {
                        ("BoundsCheck".into(), vec![self.operand(len), self.operand(index)])
                    }
                    AssertKind::Overflow(op, a, b) => {
                        (format!("Overflow:{:?}", op), vec![self.operand(a), self.operand(b)])
                    }
                    AssertKind::OverflowNeg(a) => ("OverflowNeg".into(), vec![self.operand(a)]),
                    AssertKind::DivisionByZero(a) => ("DivisionByZero".into(), vec![self.operand(a)]),
                    AssertKind::RemainderByZero(a) => ("RemainderByZero".into(), vec![self.operand(a)]),
                    other => (format!("{:?}", other), vec![]),
                };
                items.push(("ak", q(&kind)));
                items.push(("ops", list(ops)));
                items.push(("t", target.index().to_string()));
                items.push(("unwind", self.unwind(unwind)));
            }
            TerminatorKind::FalseEdge { real_target, .. } => {
                items.push(("k", q("Goto")));
                items.push(("t", real_target.index().to_string()));
            }
            TerminatorKind::FalseUnwind { real_target, .. } => {
                items.push(("k", q("Goto")));
                items.push(("t", real_target.index().to_string()));
            }
            other => {
                items.push(("k", q("Other")));
                items.push(("s", q(&format!("{:?}", other))));
            }
        }
        items.extend(self.src(t.source_info.span));
        obj(&items)
    }

    fn dump(&self) -> String {
        let tcx = self.tcx;
        let body = self.body;
        let did = self.def_id;
        let kind = tcx.def_kind(did);
        let mut items: Vec<(&str, String)> = vec![];
        items.push(("kind", q(&format!("{:?}", kind))));
        let parent = if matches!(kind, DefKind::Closure) {
            Some(q(&path_of(tcx, tcx.parent(did))))
        } else {
            None
        };
        items.push(("parent", opt(parent)));
        items.push(("root", q(&path_of(tcx, tcx.typeck_root_def_id(did)))));
        let (file, line) = line_of(tcx, body.span);
        let end = tcx.sess.source_map().lookup_char_pos(body.span.hi()).line;
        items.push(("file", q(&file)));
        items.push(("line", line.to_string()));
        items.push(("end_line", end.to_string()));
        items.push(("argc", body.arg_count.to_string()));
        {
            let ids = ty::GenericArgs::identity_for_item(tcx, did);
            items.push((
                "generics",
                list(ids.iter().map(|a| q(&with_no_visible_paths!(with_no_trimmed_paths!(a.to_string()))))),
            ));
        }
        if matches!(kind, DefKind::Fn | DefKind::AssocFn) {
            items.push(("pub", tcx.visibility(did).is_public().to_string()));
            if let Some(imp) = tcx.impl_of_assoc(did) {
                let self_ty = tcx.type_of(imp).instantiate_identity().skip_norm_wip();
                items.push(("impl_self", q(&ty_str(self_ty))));
                if let DefKind::Impl { of_trait: true } = tcx.def_kind(imp) {
                    let tr = tcx.impl_trait_ref(imp).instantiate_identity().skip_norm_wip();
                    items.push(("impl_trait", q(&path_of(tcx, tr.def_id))));
                    items.push(("impl_trait_full", q(&with_no_visible_paths!(with_no_trimmed_paths!(tr.to_string())))));
                }
            }
            if let Some(tr) = tcx.trait_of_assoc(did) {
                items.push(("in_trait", q(&path_of(tcx, tr))));
            }
        }
        items.push((
            "locals",
            list(body.local_decls.iter().map(|d| q(&ty_str(d.ty)))),
        ));
        let mut dbg = vec![];
        for v in &body.var_debug_info {
            let mut it = vec![("name", q(&v.name.to_string()))];
            match &v.value {
                VarDebugInfoContents::Place(p) => it.push(("place", self.place(p))),
                VarDebugInfoContents::Const(c) => it.push(("const", self.constant(c))),
            }
            if let Some(a) = v.argument_index {
                it.push(("arg", a.to_string()));
            }
            dbg.push(obj(&it));
        }
        items.push(("debug", list(dbg)));
        let mut blocks = vec![];
        for (_bb, data) in body.basic_blocks.iter_enumerated() {
            let stmts = list(data.statements.iter().filter_map(|s| self.statement(s)));
            let term = self.terminator(data.terminator());
            blocks.push(obj(&[
                ("cleanup", data.is_cleanup.to_string()),
                ("stmts", stmts),
                ("term", term),
            ]));
        }
        items.push(("blocks", list(blocks)));
        if self.with_promoted {
            let proms = tcx.promoted_mir(did);
            let mut ps = vec![];
            for pb in proms.iter() {
                let pcx = Cx { tcx, body: pb, def_id: did, tenv: self.tenv, with_promoted: false };
                let mut pblocks = vec![];
                for (_bb, data) in pb.basic_blocks.iter_enumerated() {
                    let stmts = list(data.statements.iter().filter_map(|s| pcx.statement(s)));
                    let term = pcx.terminator(data.terminator());
                    pblocks.push(obj(&[
                        ("cleanup", data.is_cleanup.to_string()),
                        ("stmts", stmts),
                        ("term", term),
                    ]));
                }
                ps.push(obj(&[
                    ("locals", list(pb.local_decls.iter().map(|d| q(&ty_str(d.ty))))),
                    ("blocks", list(pblocks)),
                ]));
            }
            items.push(("promoted", list(ps)));
        }
        obj(&items)
    }
}

// ---------------------------------------------------------------- constants

fn read_uint(bytes: &[u8], off: usize, size: usize) -> u128 {
    let mut v: u128 = 0;
    for i in 0..size {
        v |= (bytes[off + i] as u128) << (8 * i);
    }
    v
}

fn float_json(bits: u128, size: usize) -> String {
    if size == 4 {
        let g = f32::from_bits(bits as u32);
        if g.is_finite() { format!("{:?}", g) } else { q(&format!("{:?}", g)) }
    } else {
        let g = f64::from_bits(bits as u64);
        if g.is_finite() { format!("{:?}", g) } else { q(&format!("{:?}", g)) }
    }
}

fn decode<'tcx>(
    tcx: TyCtxt<'tcx>,
    tenv: TypingEnv<'tcx>,
    bytes: &[u8],
    off: usize,
    ty: Ty<'tcx>,
    depth: usize,
) -> String {
    if depth > 12 {
        return q("<deep>");
    }
    let Ok(layout) = tcx.layout_of(tenv.as_query_input(ty)) else {
        return q("<nolayout>");
    };
    let size = layout.size.bytes() as usize;
    if off + size > bytes.len() {
        return q("<oob>");
    }
    match ty.kind() {
        ty::Bool => (bytes[off] != 0).to_string(),
        ty::Char | ty::Uint(_) => read_uint(bytes, off, size).to_string(),
        ty::Int(_) => {
            let v = read_uint(bytes, off, size);
            let sh = 128 - 8 * size as u32;
            (((v << sh) as i128) >> sh).to_string()
        }
        ty::Float(_) => float_json(read_uint(bytes, off, size), size),
        ty::Array(elem, len) => {
            let Some(n) = len.try_to_target_usize(tcx) else { return q("<len?>") };
            let Ok(el) = tcx.layout_of(tenv.as_query_input(*elem)) else {
                return q("<nolayout>");
            };
            let es = el.size.bytes() as usize;
            list((0..n as usize).map(|i| decode(tcx, tenv, bytes, off + i * es, *elem, depth + 1)))
        }
        ty::Tuple(tys) => list(tys.iter().enumerate().map(|(i, t)| {
            let o = layout.fields.offset(i).bytes() as usize;
            decode(tcx, tenv, bytes, off + o, t, depth + 1)
        })),
        ty::Adt(def, args) if def.is_struct() => {
            let v = def.non_enum_variant();
            let mut items: Vec<String> = vec![format!("\"_t\":{}", q(&path_of(tcx, def.did())))];
            for (i, f) in v.fields.iter().enumerate() {
                let o = layout.fields.offset(i).bytes() as usize;
                let fty = f.ty(tcx, args);
                let fty = tcx
                    .try_normalize_erasing_regions(tenv, ty::Unnormalized::new_wip(fty))
                    .unwrap_or(fty);
                items.push(format!(
                    "{}:{}",
                    q(&f.name.to_string()),
                    decode(tcx, tenv, bytes, off + o, fty, depth + 1)
                ));
            }
            format!("{{{}}}", items.join(","))
        }
        ty::Adt(def, _) if def.is_enum() => {
            let fieldless = def.variants().iter().all(|v| v.fields.is_empty());
            match &layout.variants {
                Variants::Single { index } => {
                    obj(&[("_variant", q(&def.variant(*index).name.to_string()))])
                }
                Variants::Multiple { tag, tag_encoding: TagEncoding::Direct, tag_field, .. }
                    if fieldless =>
                {
                    let o = layout.fields.offset(tag_field.index()).bytes() as usize;
                    let ts = tag.size(&tcx).bytes() as usize;
                    let t = read_uint(bytes, off + o, ts);
                    let mut name = None;
                    for (vi, d) in def.discriminants(tcx) {
                        let mask = if ts >= 16 { u128::MAX } else { (1u128 << (8 * ts)) - 1 };
                        if d.val & mask == t {
                            name = Some(def.variant(vi).name.to_string());
                        }
                    }
                    obj(&[("_variant", opt(name.map(|n| q(&n)))), ("_discr", t.to_string())])
                }
                _ => q("<enum>"),
            }
        }
        _ => {
            if size == 0 {
                "null".into()
            } else {
                q(&format!("<{}>", ty_str(ty)))
            }
        }
    }
}

fn decode_value<'tcx>(
    tcx: TyCtxt<'tcx>,
    tenv: TypingEnv<'tcx>,
    cv: ConstValue,
    ty: Ty<'tcx>,
) -> Option<String> {
    Some(match cv {
        ConstValue::Scalar(Scalar::Int(si)) => {
            let size = si.size().bytes() as usize;
            let bits = si.to_bits_unchecked();
            let bytes: Vec<u8> = (0..size).map(|i| (bits >> (8 * i)) as u8).collect();
            decode(tcx, tenv, &bytes, 0, ty, 0)
        }
        ConstValue::Scalar(Scalar::Ptr(ptr, _)) => {
            // &T to a constant allocation: decode the pointee
            let ty::Ref(_, inner, _) = ty.kind() else { return None };
            let (prov, off) = ptr.prov_and_relative_offset();
            let GlobalAlloc::Memory(a) = tcx.global_alloc(prov.alloc_id()) else { return None };
            let a = a.inner();
            let bytes = a.inspect_with_uninit_and_ptr_outside_interpreter(0..a.len());
            obj(&[("ref", decode(tcx, tenv, bytes, off.bytes() as usize, *inner, 0))])
        }
        ConstValue::ZeroSized => "null".into(),
        ConstValue::Slice { .. } => q("<slice>"),
        ConstValue::Indirect { alloc_id, offset } => {
            let GlobalAlloc::Memory(a) = tcx.global_alloc(alloc_id) else { return None };
            let a = a.inner();
            let bytes = a.inspect_with_uninit_and_ptr_outside_interpreter(0..a.len());
            decode(tcx, tenv, bytes, offset.bytes() as usize, ty, 0)
        }
    })
}

fn dump_const<'tcx>(tcx: TyCtxt<'tcx>, did: DefId) -> Option<String> {
    if tcx.generics_of(did).requires_monomorphization(tcx) {
        return None;
    }
    let ty = tcx.type_of(did).instantiate_identity().skip_norm_wip();
    let tenv = TypingEnv::post_analysis(tcx, did);
    let val = tcx.const_eval_poly(did).ok()?;
    let v = match val {
        ConstValue::Scalar(Scalar::Int(si)) => {
            let size = si.size().bytes() as usize;
            let bits = si.to_bits_unchecked();
            let bytes: Vec<u8> = (0..size).map(|i| (bits >> (8 * i)) as u8).collect();
            decode(tcx, tenv, &bytes, 0, ty, 0)
        }
        ConstValue::Scalar(_) => q("<ptr>"),
        ConstValue::ZeroSized => "null".into(),
        ConstValue::Slice { .. } => q("<slice>"),
        ConstValue::Indirect { alloc_id, offset } => {
            let GlobalAlloc::Memory(a) = tcx.global_alloc(alloc_id) else { return None };
            let a = a.inner();
            let bytes = a.inspect_with_uninit_and_ptr_outside_interpreter(0..a.len());
            decode(tcx, tenv, bytes, offset.bytes() as usize, ty, 0)
        }
    };
    let (file, line) = line_of(tcx, tcx.def_span(did));
    Some(obj(&[("ty", q(&ty_str(ty))), ("file", q(&file)), ("line", line.to_string()), ("value", v)]))
}

// ---------------------------------------------------------------- driver

struct Cb;

impl rustc_driver::Callbacks for Cb {
    fn after_analysis<'tcx>(
        &mut self,
        _c: &rustc_interface::interface::Compiler,
        tcx: TyCtxt<'tcx>,
    ) -> rustc_driver::Compilation {
        let krate = tcx.crate_name(LOCAL_CRATE).to_string();
        let wanted = std::env::var("FACTDUMP_CRATES")
            .unwrap_or_else(|_| "retrofire_core,retrofire_geom".into());
        if !wanted.split(',').any(|w| w == krate) {
            return rustc_driver::Compilation::Continue;
        }
        let Ok(out_dir) = std::env::var("FACTDUMP_OUT") else {
            return rustc_driver::Compilation::Continue;
        };

        // bodies
        let mut bodies: Vec<String> = vec![];
        let mut seen = std::collections::HashMap::<String, usize>::new();
        for ldid in tcx.mir_keys(()) {
            let did = ldid.to_def_id();
            if !matches!(tcx.def_kind(did), DefKind::Fn | DefKind::AssocFn | DefKind::Closure) {
                continue;
            }
            if !tcx.is_mir_available(did) {
                continue;
            }
            let body = tcx.optimized_mir(did);
            let cx = Cx { tcx, body, def_id: did, tenv: TypingEnv::post_analysis(tcx, did), with_promoted: true };
            let mut p = path_of(tcx, did);
            let n = seen.entry(p.clone()).or_insert(0);
            *n += 1;
            if *n > 1 {
                p = format!("{}#{}", p, n);
            }
            bodies.push(format!("{}:{}", q(&p), cx.dump()));
        }

        // ADTs, consts, impls
        let mut adts = vec![];
        let mut consts = vec![];
        let mut impls = vec![];
        for ldid in tcx.hir_crate_items(()).definitions() {
            let did = ldid.to_def_id();
            match tcx.def_kind(did) {
                DefKind::Struct | DefKind::Enum | DefKind::Union => {
                    let def = tcx.adt_def(did);
                    let mut vs = vec![];
                    for (vi, v) in def.variants().iter_enumerated() {
                        let discr = if def.is_enum() {
                            def.discriminant_for_variant(tcx, vi).val.to_string()
                        } else {
                            "0".into()
                        };
                        vs.push(obj(&[
                            ("name", q(&v.name.to_string())),
                            ("discr", discr),
                            ("fields", list(v.fields.iter().map(|f| q(&f.name.to_string())))),
                            (
                                "field_pub",
                                list(v.fields.iter().map(|f| f.vis.is_public().to_string())),
                            ),
                        ]));
                    }
                    let (file, line) = line_of(tcx, tcx.def_span(did));
                    adts.push(format!(
                        "{}:{}",
                        q(&path_of(tcx, did)),
                        obj(&[
                            ("kind", q(&format!("{:?}", tcx.def_kind(did)))),
                            ("file", q(&file)),
                            ("line", line.to_string()),
                            ("variants", list(vs)),
                        ])
                    ));
                }
                DefKind::Const { .. } | DefKind::AssocConst { .. } => {
                    if let Some(s) = dump_const(tcx, did) {
                        consts.push(format!("{}:{}", q(&path_of(tcx, did)), s));
                    }
                }
                DefKind::Impl { of_trait: true } => {
                    let tr = tcx.impl_trait_ref(did).instantiate_identity().skip_norm_wip();
                    let (file, line) = line_of(tcx, tcx.def_span(did));
                    impls.push(obj(&[
                        ("trait", q(&path_of(tcx, tr.def_id))),
                        ("full", q(&with_no_visible_paths!(with_no_trimmed_paths!(tr.to_string())))),
                        ("self", q(&ty_str(tr.self_ty()))),
                        ("file", q(&file)),
                        ("line", line.to_string()),
                    ]));
                }
                _ => {}
            }
        }

        let features: Vec<String> = std::env::args()
            .filter(|a| a.starts_with("feature=\""))
            .map(|a| q(a["feature=\"".len()..].trim_end_matches('"')))
            .collect();
        let doc = format!(
            "{{\"crate\":{},\"features\":{},\"bodies\":{{{}}},\"adts\":{{{}}},\"consts\":{{{}}},\"impls\":{}}}\n",
            q(&krate),
            list(features),
            bodies.join(",\n"),
            adts.join(",\n"),
            consts.join(",\n"),
            list(impls)
        );
        let path = format!("{}/{}-{}.json", out_dir, krate, std::process::id());
        std::fs::write(&path, doc).expect("factdump: cannot write fact file");
        rustc_driver::Compilation::Continue
    }
}

fn main() {
    let mut args: Vec<String> = std::env::args().collect();
    // RUSTC_WORKSPACE_WRAPPER passes the real rustc as argv[1]
    if args.len() > 1 && (args[1].ends_with("rustc") || args[1].contains("/rustc")) {
        args.remove(1);
    }
    rustc_driver::run_compiler(&args, &mut Cb);
}
